"""C20 - Jenkins job graph is acyclic, complete and faithful.

oracle:      generated projects on disk -> the REAL genJenkinsJobs / genJenkinsBuildOrder (child process,
             harness/gen/c20_child.py).  On the result, with the harness' own traversal of the package objects:
             every reachable package is built by exactly one job, the job depends on the jobs of all valid
             dependencies (arguments, tools, sandbox), upstream names exist, the job graph is acyclic, no internal
             exception; second sentence: dumpJobSpec() -> exec.Spec -> PartialIR, every getter the builder uses and
             the Build-Ids (builder's recipe, harness-supplied source hashes) equal the project's.
correspond:  the same runs through the Lean model `drv_c20`: display and internal job name of every package step,
             partition of the variant-ids into abstract jobs (recorded from outside), Jenkins jobs (packages,
             upstream sets), cyclic / not cyclic.
"""
import hashlib
import json
import os
import subprocess
import sys
import time

DRIVER = "drv_c20"
RULE = ("projects of 2..9 packages generated on disk by harness/gen/jenkins_projects.py: package DAG grouped into recipes "
        "independently of the dependency order (multiPackages reaching each other through other recipes), variants by "
        "environment / conditional dependencies / tool availability, tool and sandbox providers depending on variants "
        "of their users, packages providing several tools with different path/libs used together in one job, aliases, "
        "identical scripts in different recipes (shared variant-ids), names with characters "
        "that fold ('.', '+', upper case, '::') or look like numbering suffixes; per project several root selections "
        "(order permuted, inner paths), prefixes, isolate regexes, description modes, sandbox modes. A case is distinct "
        "by (recipe files, options); non-trivial if at least two package steps share a job name candidate.")
ASSUMPTIONS = [
    "nodes of the model are package steps keyed by Jenkins variant-id (the first instance in sanitize's traversal order "
    "supplies names and dependencies); this is exact when all package instances with one Jenkins variant-id have "
    "dependencies with the same Jenkins variant-ids. The harness walks all instances: where they differ (a dependency "
    "inherits a sandbox that is not part of the dependent's variant-id) only names and the abstract job partition are "
    "compared, and the crash this causes in genJenkinsJobs is reported by the oracle "
    "(signature same-jenkins-variant-id-different-dependencies)",
    "checkout and build steps are flattened into their package step (sanitize passes them through with job=parentJob); "
    "a checkout/build step never has the variant-id of a package step (SHA-1 collision freedom)",
    "recipes whose package step is invalid while their build step is valid are not generated (genJenkinsJobs does not "
    "recurse into the tools of such a build step)",
    "_genJenkinsJobs' pruning (seenPackages, allVariantIds) is modelled as the closure of the roots under valid "
    "dependencies; genJenkinsBuildOrder's arbitrary set.pop() order is replaced by sorted order (result kind only)",
    "second sentence of the property (job specification round trip, Build-Ids) is checked differentially only, no theorem; "
    "checkout results and fingerprint script outputs are supplied by the harness, Build-Ids are computed the way "
    "LocalBuilder.__getBuildIdSingle/_getFingerprint do",
    "Python's sorted() on str is code point order; names are ASCII (RECIPE_NAME_SCHEMA); the job name regex, its "
    "replacement character, the '-' separator and the numbering offset are extracted from the source on every run",
    "abstract jobs of the real calculation are observed by a recording subclass of AbstractJob installed from outside",
]

HERE = os.path.dirname(os.path.abspath(__file__))
CHILD = os.path.join(os.path.dirname(HERE), "gen", "c20_child.py")

MANDATORY_PROJECTS = 200    # x3 option sets; run regardless of the time budget
MUST_PASS = ("multi-tool-provider", "multi-ok", "sandbox-bootstrap", "tool-two-contexts", "tool-several-users", "propagate-grandparent",
             "propagate-merged", "second-parent", "reverse-order", "tool-only", "isolate-multi")

KNOWN_CLASH = ("folded-job-names-collide", "numbered-job-name-collides", "folded-and-numbered-job-names-collide")


# ------------------------------------------------------------------ directed projects (witnesses)

def _cfg():
    return {"config.yaml": 'bobMinimumVersion: "1.0"\n'}


def directed():
    def rec(deps=None, root=False, extra=""):
        s = ""
        if root:
            s += "root: True\n"
        if deps:
            s += "depends:\n" + "".join("    - %s\n" % d for d in deps)
        return s + extra
    out = []
    # one package provides several tools that differ in path and libs; they are used together by one step (app/build),
    # by different steps of one package (lib: build = compiler, package = linker) and alone.  A tool is
    # (providing step, path, libs): a job specification that identifies it by the providing step only gives every
    # tool the place of the first one ("jobspec-tool-differs").  Always runs first.
    f = _cfg()
    f["recipes/toolchain.yaml"] = ('buildScript: "true"\npackageScript: "mkdir -p bin/cc bin/ld lib/cc lib/ld"\n'
                                   'provideTools:\n    compiler:\n        path: "bin/cc"\n        libs: ["lib/cc"]\n'
                                   '    linker:\n        path: "bin/ld"\n        libs: ["lib/ld"]\n')
    f["recipes/app.yaml"] = ('root: True\ndepends:\n    - name: toolchain\n      use: [tools]\n      forward: True\n    - lib\n'
                             'buildTools: [compiler, linker]\npackageTools: [linker]\n'
                             'buildScript: "true"\npackageScript: "echo app"\n')
    f["recipes/lib.yaml"] = ('buildTools: [compiler]\npackageTools: [linker]\n'
                             'buildScript: "true"\npackageScript: "echo lib"\n')
    out.append(("multi-tool-provider", f, {"roots": ["app"], "prefix": "", "isolate": None, "short": False, "sandbox": "yes"}))
    # F-C20-1: a.b -> x -> a+b : both fold to a_b
    f = _cfg()
    f["recipes/a.b.yaml"] = rec(['"x"'], True, 'buildScript: "true"\npackageScript: "echo a.b"\n')
    f["recipes/x.yaml"] = rec(['"a+b"'], False, 'buildScript: "true"\npackageScript: "echo x"\n')
    f["recipes/a+b.yaml"] = rec(None, False, 'packageScript: "echo a+b"\n')
    out.append(("fold-cycle", f, {"roots": ["a.b"], "prefix": "", "isolate": None, "short": False, "sandbox": "yes"}))
    # the same collision without a third job: a package and its dependency in one job (job specification upgrade)
    f = _cfg()
    f["recipes/a.b.yaml"] = rec(['"a+b"'], True, 'buildScript: "true"\npackageScript: "echo a.b"\n')
    f["recipes/a+b.yaml"] = rec(None, False, 'packageScript: "echo a+b"\n')
    out.append(("fold-direct", f, {"roots": ["a.b"], "prefix": "", "isolate": None, "short": False, "sandbox": "yes"}))
    # case folding
    f = _cfg()
    f["recipes/Lib.yaml"] = rec(['"x"'], True, 'buildScript: "true"\npackageScript: "echo Lib"\n')
    f["recipes/x.yaml"] = rec(['"lib"'], False, 'buildScript: "true"\npackageScript: "echo x"\n')
    f["recipes/lib.yaml"] = rec(None, False, 'packageScript: "echo lib"\n')
    out.append(("case-cycle", f, {"roots": ["Lib"], "prefix": "", "isolate": None, "short": None, "sandbox": "no"}))
    # numbering suffix equals an existing recipe name: a (2 variants, not mergeable) -> a-1, a-2 ; recipe a-1
    f = _cfg()
    f["recipes/root.yaml"] = ('root: True\ndepends:\n    - name: p\n      use: [tools]\n      forward: True\n    - "a-1"\n'
                              'buildScript: "true"\npackageScript: "echo root"\n')
    f["recipes/p.yaml"] = 'depends: [a]\nbuildScript: "true"\npackageScript: "echo p"\nprovideTools:\n    T: "."\n'
    f["recipes/q.yaml"] = 'depends: [a]\nbuildScript: "true"\npackageScript: "echo q"\n'
    f["recipes/a.yaml"] = 'packageTools:\n    - name: T\n      if: "$(is-tool-defined,T)"\npackageScript: "echo a"\n'
    f["recipes/a-1.yaml"] = 'depends: [q]\nbuildScript: "true"\npackageScript: "echo a-1"\n'
    out.append(("number-cycle", f, {"roots": ["root"], "prefix": "", "isolate": None, "short": False, "sandbox": "yes"}))
    # a package that is built inside the sandbox it provides itself (bootstrap shape): the job of the sandboxed
    # variant consumes the unsandboxed variant, which has the same (plain) variant-id.  Regression case of F-C20-4
    # (exec.getDependencies dropped such dependencies; fixed): "jobspec-dependency-dropped" is a fresh violation
    f = _cfg()
    f["recipes/root.yaml"] = ('root: True\ndepends:\n    - name: sb\n      use: [sandbox]\n      forward: True\n    - y\n'
                              'buildScript: "true"\npackageScript: "echo root"\n')
    f["recipes/sb.yaml"] = 'buildScript: "true"\npackageScript: "echo sb"\nprovideSandbox:\n    paths: ["/bin"]\n'
    f["recipes/y.yaml"] = 'depends: [sb]\nbuildScript: "true"\npackageScript: "echo y"\n'
    out.append(("sandbox-bootstrap", f, {"roots": ["root"], "prefix": "", "isolate": None, "short": False, "sandbox": "yes"}))
    # two instances of p with the same Jenkins variant-id whose dependency d is sandboxed below r1 only
    f = _cfg()
    f["recipes/r1.yaml"] = ('root: True\ndepends:\n    - name: sb\n      use: [sandbox]\n      forward: True\n    - p\n'
                            'buildScript: "true"\npackageScript: "echo r1"\n')
    f["recipes/r2.yaml"] = 'root: True\ndepends: [p]\nbuildScript: "true"\npackageScript: "echo r2"\n'
    f["recipes/p.yaml"] = ('depends:\n    - d\n    - name: sb\n      use: [sandbox]\n'
                           'buildScript: "true"\npackageScript: "echo p"\n')
    f["recipes/d.yaml"] = 'buildScript: "true"\npackageScript: "echo d"\n'
    f["recipes/sb.yaml"] = 'buildScript: "true"\npackageScript: "echo sb"\nprovideSandbox:\n    paths: ["/bin"]\n'
    out.append(("instances-differ", f, {"roots": ["r1", "r2"], "prefix": "", "isolate": None, "short": False, "sandbox": "yes"}))
    # shapes whose merge decisions depend on the propagation of `childs` (must NOT fail):
    # variants by environment: B(1) -> p -> A(1) ; A(2) -> B(2).  After merging A, B(1) reaches B(2) only through
    # the *grand* parent update of addChilds
    def var(name, cond_dep=None, val=None):
        t = 'packageVars: [V]\nbuildScript: "true"\npackageScript: "echo %s $V"\n' % name
        if cond_dep:
            t = 'depends:\n    - name: %s\n      if: "$(eq,${V:-},%s)"\n' % (cond_dep, val) + t
        return t
    f = _cfg()
    f["recipes/root.yaml"] = ('root: True\ndepends:\n    - name: B\n      environment: {V: "1"}\n    - name: A\n      environment: {V: "2"}\n'
                              'buildScript: "true"\npackageScript: "echo root"\n')
    f["recipes/B.yaml"] = var("B", "p", "1")
    f["recipes/p.yaml"] = 'depends: [A]\nbuildScript: "true"\npackageScript: "echo p"\n'
    f["recipes/A.yaml"] = var("A", "B", "2")
    out.append(("propagate-grandparent", f, {"roots": ["root"], "prefix": "", "isolate": None, "short": False, "sandbox": "no"}))
    # E(1) -> A(1) ; A(2) -> C(2) ; C(3) -> E(3): after merging A and then C, E(1) reaches E(3) only if the
    # propagation from C finds the *merged* job of A(2) through vidToJob
    f = _cfg()
    f["recipes/root.yaml"] = ('root: True\ndepends:\n    - name: E\n      environment: {V: "1"}\n    - name: A\n      environment: {V: "2"}\n'
                              '    - name: C\n      environment: {V: "3"}\nbuildScript: "true"\npackageScript: "echo root"\n')
    f["recipes/E.yaml"] = var("E", "A", "1")
    f["recipes/A.yaml"] = var("A", "C", "2")
    f["recipes/C.yaml"] = var("C", "E", "3")
    out.append(("propagate-merged", f, {"roots": ["root"], "prefix": "", "isolate": None, "short": False, "sandbox": "no"}))
    # A(1) is met first below w1 and again below p (second parent): w1 -> A(1) ; B(1) -> p -> A(1) ; w2 -> A(2) -> B(2).
    # B(1) reaches B(2) only if the second parent p was recorded at A(1)
    f = _cfg()
    f["recipes/root.yaml"] = ('root: True\ndepends:\n    - w1\n    - name: B\n      environment: {V: "1"}\n    - w2\n'
                              'buildScript: "true"\npackageScript: "echo root"\n')
    f["recipes/w1.yaml"] = 'depends:\n    - name: A\n      environment: {V: "1"}\nbuildScript: "true"\npackageScript: "echo w1"\n'
    f["recipes/w2.yaml"] = 'depends:\n    - name: A\n      environment: {V: "2"}\nbuildScript: "true"\npackageScript: "echo w2"\n'
    f["recipes/B.yaml"] = var("B", "p", "1")
    f["recipes/p.yaml"] = 'depends: [A]\nbuildScript: "true"\npackageScript: "echo p"\n'
    f["recipes/A.yaml"] = var("A", "B", "2")
    out.append(("second-parent", f, {"roots": ["root"], "prefix": "", "isolate": None, "short": False, "sandbox": "no"}))
    # the job that is met first is reached by the later one: m-b ; m-a -> x -> m-b
    f = _cfg()
    f["recipes/root.yaml"] = 'root: True\ndepends: [m-b, m-a]\nbuildScript: "true"\npackageScript: "echo root"\n'
    f["recipes/m.yaml"] = ('multiPackage:\n    a:\n        depends: [x]\n        buildScript: "true"\n'
                           '        packageScript: "echo m-a"\n    b:\n        packageScript: "echo m-b"\n')
    f["recipes/x.yaml"] = 'depends: [m-b]\nbuildScript: "true"\npackageScript: "echo x"\n'
    out.append(("reverse-order", f, {"roots": ["root"], "prefix": "", "isolate": None, "short": True, "sandbox": "no"}))
    # one tool variant needed inside and outside of a sandbox: a (in sandbox sb) and b (no sandbox) use tool -> base.
    # For Jenkins root/a/tool and root/b/tool are different packages (workspaces, jobs) with the same plain Variant-Id
    f = _cfg()
    f["recipes/root.yaml"] = 'root: True\ndepends: [a, b]\nbuildScript: "true"\npackageScript: "echo root"\n'
    f["recipes/sb.yaml"] = 'buildScript: "true"\npackageScript: "echo sb"\nprovideSandbox:\n    paths: ["/bin"]\n'
    f["recipes/tool.yaml"] = 'depends: [base]\nbuildScript: "true"\npackageScript: "echo tool"\nprovideTools:\n    T: "."\n'
    f["recipes/base.yaml"] = 'buildScript: "true"\npackageScript: "echo base"\n'
    f["recipes/a.yaml"] = ('depends:\n    - name: sb\n      use: [sandbox]\n      forward: True\n    - name: tool\n      use: [tools]\n'
                           'buildTools: [T]\nbuildScript: "true"\npackageScript: "echo a"\n')
    f["recipes/b.yaml"] = 'depends:\n    - name: tool\n      use: [tools]\nbuildTools: [T]\nbuildScript: "true"\npackageScript: "echo b"\n'
    out.append(("tool-two-contexts", f, {"roots": ["root"], "prefix": "", "isolate": None, "short": False, "sandbox": "yes"}))
    # several users, other order (outside first), the sandbox provider also as plain dependency outside
    f = dict(f)
    f["recipes/b.yaml"] = ('depends:\n    - sb\n    - name: tool\n      use: [tools]\nbuildTools: [T]\nbuildScript: "true"\n'
                           'packageScript: "echo b"\n')
    f["recipes/c.yaml"] = ('depends:\n    - name: sb\n      use: [sandbox]\n      forward: True\n    - name: tool\n      use: [tools]\n'
                           'packageTools: [T]\nbuildScript: "true"\npackageScript: "echo c"\n')
    f["recipes/root.yaml"] = 'root: True\ndepends: [b, a, c]\nbuildScript: "true"\npackageScript: "echo root"\n'
    out.append(("tool-several-users", f, {"roots": ["root"], "prefix": "j-", "isolate": None, "short": True, "sandbox": "yes"}))
    # a tool: its provider must get a job although it is no argument of any step
    f = _cfg()
    f["recipes/root.yaml"] = ('root: True\ndepends:\n    - name: tp\n      use: [tools]\nbuildTools: [T]\n'
                              'buildScript: "true"\npackageScript: "echo root"\n')
    f["recipes/tp.yaml"] = 'depends: [lib]\nbuildScript: "true"\npackageScript: "echo tp"\nprovideTools:\n    T: "."\n'
    f["recipes/lib.yaml"] = 'buildScript: "true"\npackageScript: "echo lib"\n'
    out.append(("tool-only", f, {"roots": ["root"], "prefix": "x-", "isolate": "^l", "short": True, "sandbox": "yes"}))
    # isolate is decided on the package name (m-dev), not on the recipe name (m)
    f = _cfg()
    f["recipes/root.yaml"] = 'root: True\ndepends: [m-dev, m-tgt, m-doc]\nbuildScript: "true"\npackageScript: "echo root"\n'
    f["recipes/m.yaml"] = ('multiPackage:\n    dev:\n        packageScript: "echo m-dev"\n    tgt:\n        packageScript: "echo m-tgt"\n'
                           '    doc:\n        packageScript: "echo m-doc"\n')
    out.append(("isolate-multi", f, {"roots": ["root"], "prefix": "", "isolate": "-dev$", "short": False, "sandbox": "no"}))
    # plain multiPackage shape that must NOT fail: m-a -> x -> m-b
    f = _cfg()
    f["recipes/m.yaml"] = ('multiPackage:\n    a:\n        root: True\n        depends: [x]\n        buildScript: "true"\n'
                           '        packageScript: "echo m-a"\n    b:\n        packageScript: "echo m-b"\n')
    f["recipes/x.yaml"] = 'depends: [m-b]\nbuildScript: "true"\npackageScript: "echo x"\n'
    out.append(("multi-ok", f, {"roots": ["m-a"], "prefix": "P.", "isolate": None, "short": False, "sandbox": "yes"}))
    return out


# ------------------------------------------------------------------ running the implementation

def _write_project(base, files):
    for rel, text in files.items():
        p = os.path.join(base, rel)
        os.makedirs(os.path.dirname(p), exist_ok=True)
        with open(p, "w") as fh:
            fh.write(text)


def _run_children(ctx, cases, workers, timeout):
    """cases: [{"id","dir","opts","ir"}]; all cases of one directory go to the same child"""
    if not cases:
        return {}
    bydir = {}
    for c in cases:
        bydir.setdefault(c["dir"], []).append(c)
    groups = [[] for _ in range(max(1, min(workers, len(bydir))))]
    for i, d in enumerate(sorted(bydir)):
        groups[i % len(groups)].extend(bydir[d])
    procs = []
    stamp = "%d-%d" % (os.getpid(), int(time.time() * 1000) % 100000)
    for k, grp in enumerate(groups):
        inp = os.path.join(ctx.tmp, "c20in-%s-%d.json" % (stamp, k))
        outp = os.path.join(ctx.tmp, "c20out-%s-%d.json" % (stamp, k))
        json.dump(grp, open(inp, "w"))
        env = dict(os.environ, PYTHONDONTWRITEBYTECODE="1", PYTHONHASHSEED=str(ctx.seed % 1000))
        p = subprocess.Popen([sys.executable, CHILD, ctx.repo, inp, outp], stdout=subprocess.PIPE, stderr=subprocess.PIPE, env=env)
        procs.append((p, outp, grp))
    res = {}
    deadline = time.time() + timeout
    for p, outp, grp in procs:
        try:
            _, err = p.communicate(timeout=max(1.0, deadline - time.time()))
        except subprocess.TimeoutExpired:
            p.kill()
            p.communicate()
            n = _read(outp, res)
            ctx.skip("c20: time limit of a batch reached; the cases not yet run are not evaluated")
            ctx.count("case_status", "not-run(time)", len(grp) - n)
            continue
        if p.returncode != 0 or not os.path.exists(outp):
            raise RuntimeError("c20 child failed rc=%s: %s" % (p.returncode, err.decode("utf-8", "replace")[-1500:]))
        _read(outp, res)
    return res


def _read(outp, res):
    """one JSON record per line; a killed child leaves complete lines only up to its last flush"""
    n = 0
    if os.path.exists(outp):
        for line in open(outp):
            try:
                o = json.loads(line)
            except ValueError:
                break
            if o.get("id") is not None:
                res[o["id"]] = o
                n += 1
    return n


def _gen_batch(ctx, tag, nproj, per_proj, ir_share):
    from gen import jenkins_projects as G
    cases, meta = [], {}
    for i in range(nproj):
        r = ctx.subrng(tag, i)
        # a stream of its own (the draws from `r` are the ones of the earlier generator): in half of the projects
        # packages provide several tools with different path / libs, used together in one job
        r2 = ctx.subrng(tag, i, "multitool")
        if r2.random() >= 0.5:
            r2 = None
        toolbox = r.random() < 0.25
        if toolbox:
            # tool / sandbox providers needed in several sandbox contexts
            proj = G.gen_toolbox_project(r, r2)
        else:
            proj = G.gen_project(r, odd_names=0.12 if r.random() < 0.7 else 0.0, r2=r2)
        d = os.path.join(ctx.tmp, tag, "p%d" % i)
        _write_project(d, proj["files"])
        for k in range(per_proj):
            opts = G.gen_case_options(r, proj)
            if toolbox and r.random() < 0.85:
                opts["sandbox"] = r.choice(["yes", "yes", "slim"])
            cid = "%s-%d-%d" % (tag, i, k)
            cases.append({"id": cid, "dir": d, "opts": opts, "ir": r.random() < ir_share})
            meta[cid] = {"files": proj["files"], "opts": opts, "sub": [tag, i, k]}
    return cases, meta


def _record(meta):
    return {"files": meta["files"], "opts": meta["opts"], "sub": meta.get("sub")}


def _evaluate(ctx, o, meta):
    """oracle verdicts of one case (computed by the child on the implementation) -> ctx"""
    fkey = hashlib.sha1(json.dumps([meta["files"], meta["opts"]], sort_keys=True).encode()).hexdigest()
    if o["status"] != "ok":
        kind = o["status"]
        if kind == "parse-error":
            kind += ":" + (o.get("error") or "").split("\n")[0][:40]
        ctx.count("case_status", kind)
        if o["status"] == "harness-error":
            raise RuntimeError("c20 child harness error: %s\n%s" % (o.get("error"), o.get("trace")))
        return False
    ctx.count("case_status", "ok")
    nodes = o["graph"]["nodes"]
    cand = {}
    for n, iso in zip(nodes, o["iso"]):
        cand.setdefault(n["name"] if iso else n["recipe"], []).append(n)
    shared = any(len(v) > 1 for v in cand.values())
    ctx.case(fkey, nontrivial=shared,
             sample={"roots": meta["opts"]["roots"], "isolate": meta["opts"]["isolate"], "packages": [n["stack"] for n in nodes][:8],
                     "jobs": {k: v["up"] for k, v in list((o.get("jobs") or {}).items())[:6]}})
    ctx.count("nodes", min(len(nodes), 12) if len(nodes) < 12 else "12+")
    if o.get("abs") is not None:
        names_of = {}
        for a in o["abs"]:
            key = nodes[a[0]]["name"] if o["iso"][a[0]] else nodes[a[0]]["recipe"]
            names_of[key] = names_of.get(key, 0) + 1
        ctx.count("shape", "name-with-unmergeable-jobs" if any(v > 1 for v in names_of.values()) else "all-names-merged")
        if any(len(a) > 1 for a in o["abs"]):
            ctx.count("shape", "merged-job")
    if meta["opts"]["isolate"]:
        ctx.count("shape", "isolate")
    if o.get("clash"):
        ctx.count("clash", o["clash"])
    ctx.count("order", o.get("order", "no-jobs:" + (o.get("gen_error") or "")[:40]))
    if "ir" in o:
        ctx.count("jobspec", "jobs-checked")
        ctx.count("jobspec_fields", "compared", o["ir"]["fields"])
        if o["ir"].get("twins"):
            ctx.count("jobspec", "entry-of-a-step-with-the-same-variant-id", o["ir"]["twins"])
    for v in o.get("violations", []):
        ctx.violation(v["what"], dict(_record(meta), signature=v["sig"], trace=v.get("trace") or o.get("gen_trace")), v["sig"])
    return True


def _cache(ctx):
    if not hasattr(ctx, "_c20"):
        ctx._c20 = {"results": [], "budget_used": 0.0}
    return ctx._c20


def _workers():
    return max(2, min(14, (os.cpu_count() or 4) - 2))


def oracle(ctx):
    cache = _cache(ctx)
    t0 = time.time()

    def take(cases, meta, res):
        for c in cases:
            o = res.get(c["id"])
            if o is not None and _evaluate(ctx, o, meta[c["id"]]):
                cache["results"].append((o, meta[c["id"]]))
    # ---- directed witnesses and shapes first, in their own children (they are the regression corpus)
    cases, meta = [], {}
    for name, files, opts in directed():
        d = os.path.join(ctx.tmp, "directed", name)
        _write_project(d, files)
        cid = "directed-" + name
        cases.append({"id": cid, "dir": d, "opts": opts, "ir": True})
        meta[cid] = {"files": files, "opts": opts, "sub": ["directed", name]}
    # mandatory: runs whatever the load of the machine is (the generous cap only guards against a hang)
    res = _run_children(ctx, cases, 7, 900.0)
    take(cases, meta, res)
    # the directed shapes without a name clash must give an acyclic job graph (all other clauses: the oracle in the child)
    for name in MUST_PASS:
        ok = res.get("directed-" + name)
        if ok is not None and (ok["status"] != "ok" or ok.get("order") != "ok"):
            ctx.violation("the project '%s' (acyclic recipes, no name clash) does not give an acyclic job graph: %s"
                          % (name, ok.get("order") or ok.get("error") or ok.get("gen_error")),
                          dict(_record(meta["directed-" + name]), signature="directed-shape-fails"), "directed-shape-fails")
    # ---- generated stream.  The first part is mandatory as well (sized so that directed + mandatory + their
    # correspondence take well below a minute on an idle 16 core machine); the rest fills the budget.
    c2, m2 = _gen_batch(ctx, "gen", MANDATORY_PROJECTS, 3, 0.35)
    res = _run_children(ctx, c2, _workers(), 1200.0)
    take(c2, m2, res)
    if ctx.time_left() > 40:
        nproj = min(ctx.scale(260, 5000), max(10, int(ctx.time_left() * 3)))   # do not prepare what cannot run
        c3, m3 = _gen_batch(ctx, "gen2", nproj, 3, 0.35)
        limit = max(5.0, min((ctx.time_left() - 30.0) * 0.6, ctx.scale(45.0, 900.0)))
        res = _run_children(ctx, c3, _workers(), limit)
        take(c3, m3, res)
    else:
        ctx.count("case_status", "optional-stream-not-started(time)")
    cache["budget_used"] = time.time() - t0


def _lean_request(o, opts):
    g = o["graph"]
    return {"nodes": [{"name": n["name"], "recipe": n["recipe"], "deps": n["deps"], "vdeps": n["vdeps"]} for n in g["nodes"]],
            "roots": g["roots"], "prefix": opts["prefix"], "iso": o["iso"]}


def _compare(ctx, o, meta, m):
    """one implementation run vs. the model's reply `m`"""
    nodes = o["graph"]["nodes"]
    rel = []
    names = o.get("names") or {}
    if len(names) == len(nodes):
        impl_d = [names[n["vid"]][0] for n in nodes]
        impl_i = [names[n["vid"]][1] for n in nodes]
        if impl_d != m["dname"]:
            rel.append(("getJobDisplayName == Model.displayName (per package step)", impl_d, m["dname"]))
        if impl_i != m["iname"]:
            rel.append(("getJobInternalName == Model.internalName (per package step)", impl_i, m["iname"]))
    elif "names_error" in o:
        ctx.count("corr", "names-unavailable")
    if o.get("abs") is not None:
        ma = sorted(sorted(a) for a in m["abs"])
        if ma != o["abs"]:
            rel.append(("partition of variant-ids into abstract jobs after sanitize == Model.sanitizeSt", o["abs"], ma))
    if "jobs" in o and not o["graph"].get("instances_differ"):
        ij = {k: [v["pkgs"], v["up"]] for k, v in o["jobs"].items()}
        if m["jobs"] is None:
            rel.append(("genJenkinsJobs == Model.genJobs", ij, "KeyError"))
        else:
            mj = {j["name"]: [sorted(nodes[i]["vid"] for i in j["pkgs"]), sorted(j["up"])] for j in m["jobs"]}
            if ij != mj:
                rel.append(("genJenkinsJobs (packages per job, upstream jobs) == Model.genJobs", ij, mj))
            if o["order"] != m["order"]:
                rel.append(("genJenkinsBuildOrder cyclic/ok == Model.buildOrder", o["order"], m["order"]))
    elif o["graph"].get("instances_differ"):
        # package instances with one Jenkins variant-id but different dependency variant-ids: outside the model's
        # abstraction (nodes are variant-ids); the crash this causes is reported by the oracle
        ctx.count("corr", "instances-differ(job level not compared)")
    else:
        # genJenkinsJobs aborted.  A ParseError of Bob is an outcome the model does not have; an internal exception
        # together with a name clash is the known consequence of the clash (PartialIR upgrade) and was reported by the oracle
        err = o.get("gen_error", "")
        if err.startswith("internal:") and not o.get("clash"):
            rel.append(("genJenkinsJobs terminates without internal exception", err, "jobs"))
        ctx.count("corr", "genjobs-aborted")
    for r, a, b in rel:
        ctx.disagree(r, _record(meta), a, b)
    return not rel


def correspond(ctx):
    cache = _cache(ctx)
    results = list(cache["results"])
    # a second stream with other shapes of options (more root orders per project)
    if ctx.time_left() > 40:
        nproj = min(ctx.scale(120, 3000), max(5, int(ctx.time_left() * 2)))
        cases, meta = _gen_batch(ctx, "corr", nproj, 5, 0.0)
        limit = max(5.0, min(ctx.time_left() - 25.0, ctx.scale(30.0, 500.0)))
        res = _run_children(ctx, cases, _workers(), limit)
        for c in cases:
            o = res.get(c["id"])
            if o is not None and _evaluate(ctx, o, meta[c["id"]]):
                results.append((o, meta[c["id"]]))
    if not results:
        ctx.skip("c20: no implementation run available for the correspondence")
        return
    reqs = [_lean_request(o, meta["opts"]) for o, meta in results]
    replies = ctx.lean(DRIVER, reqs)
    agree = 0
    for (o, meta), m in zip(results, replies):
        if _compare(ctx, o, meta, m):
            agree += 1
        ctx.count("corr", "compared")
    ctx.trace_validated(agree)


def replay(ctx, case):
    d = os.path.join(ctx.tmp, "replay")
    _write_project(d, case["files"])
    res = _run_children(ctx, [{"id": "replay", "dir": d, "opts": case["opts"], "ir": True}], 1, 120)
    o = res.get("replay")
    if o is None or o["status"] != "ok":
        return
    for v in o.get("violations", []):
        if case.get("signature") in (None, v["sig"]):
            ctx.violation(v["what"], case, v["sig"])
            return
    for v in o.get("violations", []):
        ctx.violation(v["what"], case, v["sig"])
        return


MANIFEST = {
    "text": "Proved in Lean for every package DAG, root list, isolate predicate and prefix (Props/C20.lean, about the hand-written model "
            "Model/Jenkins.lean of JobNameCalculator.sanitize, _genJenkinsJobs, getUpstreamJobs): the merge loop keeps `childs` equal to "
            "reachability in the quotient graph and the quotient acyclic; jobs partition the reachable packages; upstream sets are complete; "
            "names are unique and the job graph acyclic under the stated hypotheses on name folding / numbering (the unconditional "
            "statements are false of code and model: witnesses in the file, reproduced on the implementation as known findings). "
            "The model is tied to the source by a differential run on generated recipe projects through the real genJenkinsJobs "
            "(names, abstract job partition, jobs, upstream sets, cyclic/ok). The job specification round trip is checked differentially.",
    "note": "trusted: Lean kernel, harness/props/c20.py + harness/gen/c20_child.py + harness/gen/jenkins_projects.py, the flattening of "
            "checkout/build steps into package steps done by the harness, CPython (sets, sorted, re, json, lzma)",
    "technique": "Lean 4 proof over hand-written model + differential correspondence on generated projects + property oracle on the implementation",
}
