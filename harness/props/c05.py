"""C05 - failed or killed builds never poison the workspace.

oracle:      generated real projects; after a successful prefix of an edit history the next invocation is
             aborted - Bob killed at the k-th micro-operation (every k of the invocation), or a step script
             that writes half of its output and then `exit 1` / `kill -9 $$` / `kill -9 $PPID` - possibly
             several aborts in a row, with further edits or a revert in between; the stale lock is removed; the
             follow-up invocation must finish and every dist workspace must equal a from-scratch build of the
             final project state; a workspace that was being modified at the cut must be re-run or pruned.
correspond:  the same recorded invocations (cut ones included) against the Lean builder model with the
             corresponding fuel / failing script / junk content.
"""
import os
import random
import shutil
import time

from props import c01

DRIVER = "drv_c05"
RULE = ("a case is one abort scenario: (successful history prefix, aborted invocation(s) with cut point k or failing/killing "
        "step script, follow-up project = same / reverted / edited further) on a generated real project; distinct by "
        "(history key, abort description, follow-up); non-trivial if the aborted invocation had executed at least one "
        "micro-operation")
ASSUMPTIONS = c01.ASSUMPTIONS + [
    "a kill is a process kill (SIGKILL of Bob and its children): completed file system operations persist (machine "
    "crashes and the state file commit protocol are C10)",
    "half-finished SCM operations inside a checkout are delegated to the SCM contract (C12)",
]

SIG_PRUNE = "prune-before-invalidate"
SIG_ATTIC = "attic-move-before-invalidate"


def _copytree(src, dst):
    shutil.copytree(src, dst, symlinks=True)


def _faults_of(log, dump):
    """(kind, package name) of the steps whose script ran in an invocation"""
    out = []
    for e in log:
        if e[0] == "run":
            d = dump["steps"].get(e[1])
            if d:
                out.append(({"checkout": "checkout", "build": "build", "package": "package"}[d["kind"]], d["name"], e[1]))
    return out


def run_scenarios(job):
    """worker: one history prefix, then abort scenarios branching from copies of the workspace"""
    from gen import buildsim as bs
    r = random.Random(job["key"])
    rec = {"key": job["key"], "scenarios": [], "prefix": [], "truncated": False, "n_chains": job.get("n_chains", 2),
           "npkgs": job.get("npkgs")}
    if time.time() > job["deadline"]:
        rec["truncated"] = True
        return rec
    n_prefix = job["n_prefix"]
    family = job.get("family", "generic")
    rec["family"] = family
    rec["n_prefix"] = n_prefix
    if family == "forced":
        # the aborted invocation is a forced rebuild (-f) of the unchanged project
        hist, edits = c01._mk_history(r, n_prefix, job.get("kinds"), job.get("npkgs"))
        hist, edits = hist + [hist[-1]], edits + [["force"]]
    elif family == "inputs-revert":
        # the edit before the aborted invocation changes only input *contents* (sources), and is reverted afterwards:
        # the follow-up invocation sees exactly the inputs of the last successful one
        hist, edits = c01._mk_history(r, n_prefix, job.get("kinds"), job.get("npkgs"))
        p, e = bs.edit(r, hist[-1], hist[:-1], ["src-modify", "src-add", "src-delete"])
        hist, edits = hist + [p], edits + [e]
    else:
        hist, edits = c01._mk_history(r, n_prefix + 1, job.get("kinds"), job.get("npkgs"))
    develop = r.random() < 0.7
    force_abort = family == "forced"
    rec.update(develop=develop, edits=edits)
    base = os.path.join(job["tmp"], "s-" + "".join(c if c.isalnum() else "_" for c in job["key"]))
    shutil.rmtree(base, ignore_errors=True)
    # every invocation runs in the same absolute directory W (restored from `saved` per scenario): Bob mixes
    # absolute paths into some state (relocation fingerprint), a moved copy would not be the same workspace
    W = os.path.join(base, "w")
    saved = os.path.join(base, "saved")
    sim0 = bs.Sim(W, job["repo"], job["deadline"] + 5)
    rec["root"] = W
    known = set()
    clean_cache = {}

    def clean_build(proj):
        k = bs.json.dumps(proj, sort_keys=True)
        if k not in clean_cache:
            simB = bs.Sim(os.path.join(base, "clean%d" % len(clean_cache)), job["repo"], job["deadline"] + 5)
            bs.render(proj, simB.root)
            resB = simB.invoke(develop, ["p0"] + bs.defines_argv(proj))
            snaps = {}
            if resB["rc"] == 0 and resB["dump"]:
                for p, d in resB["dump"]["steps"].items():
                    if d["kind"] == "package":
                        snaps[d["pkg"]] = bs.snapshot(os.path.join(simB.root, p))
            clean_cache[k] = (resB["rc"], snaps, resB["error"])
            shutil.rmtree(simB.root, ignore_errors=True)
        return clean_cache[k]

    def record(sim, proj, res, extra=None, seen=None, force=False):
        obs = bs.observe(sim, res, known if seen is None else seen)
        if seen is not None:
            seen |= set(obs["state"])
        d = {"proj": proj, "argv": ["p0"] + bs.defines_argv(proj) + (["-f"] if force else []), "force": force,
             "rc": res["rc"], "error": res["error"],
             "log": res["log"], "obs": obs, "aborted_before": res.get("aborted_before"),
             "tail": res["stdout"][-1200:] if res["rc"] != 0 else ""}
        if extra:
            d.update(extra)
        return d

    try:
        # successful prefix
        for i, proj in enumerate(hist[:-1]):
            bs.render(proj, sim0.root)
            res = sim0.invoke(develop, ["p0"] + bs.defines_argv(proj))
            inv = record(sim0, proj, res)
            known |= set(inv["obs"]["state"])
            rec["prefix"].append(inv)
            if res["rc"] != 0:
                rec["prefix_failed"] = True
                return rec
        target = hist[-1]
        prev = hist[-2]
        # reference run of the invocation that will be aborted (in a copy): its micro-op log
        _copytree(W, saved)
        ref = sim0
        bs.render(target, ref.root)
        resR = ref.invoke(develop, ["p0"] + bs.defines_argv(target) + (["-f"] if force_abort else []))
        if resR["rc"] != 0 or not resR["dump"]:
            rec["ref_failed"] = resR["error"]
            return rec
        T = len(resR["log"])
        rec["ref_ops"] = T
        faults = _faults_of(resR["log"], resR["dump"])
        # scenario list: every cut k, every failing/killing script, then chains
        plans = [[("cut", k)] for k in range(1, T + 1)]
        for kind, name, path in faults:
            for mode in ("exit", "kill", "term", "killbob"):
                plans.append([("fault", kind, name, mode, path)])
        rp = random.Random(job["key"] + "/plans")
        rc = random.Random(job["key"] + "/chains")
        rp.shuffle(plans)
        if job.get("max_plans"):
            # keep the cuts that follow a workspace modification first: they are the interesting ones
            hot = [p for p in plans if p[0][0] == "fault" or (p[0][0] == "cut" and p[0][1] >= 2 and
                   resR["log"][p[0][1] - 2][0] in ("emptyDir", "run", "mkDir", "setAttic"))]
            rp.shuffle(hot)
            if job.get("faults_first"):
                hot = [p for p in hot if p[0][0] == "fault"] + [p for p in hot if p[0][0] != "fault"]
            rest = [p for p in plans if p not in hot]
            plans = (hot + rest)[:job["max_plans"]]
        chains = []
        for _ in range(job.get("n_chains", 2)):
            m = rc.choice([2, 2, 3])
            chains.append([("cut", rc.randrange(1, T + 1)) if rc.random() < 0.7 or not faults else
                           ("fault",) + tuple(rc.choice(faults)[:2]) + (rc.choice(["exit", "kill", "term", "killbob"]), None)
                           for _ in range(m)])
        for n, plan in enumerate(plans + chains):
            if job.get("only") is not None and n not in job["only"]:
                continue
            if job.get("only_plan") is not None and [list(p) for p in plan] != job["only_plan"]:
                continue
            if time.time() > job["deadline"]:
                rec["truncated"] = True
                break
            sr = random.Random("%s/%s" % (job["key"], bs.json.dumps([list(p) for p in plan])))
            sim = sim0
            shutil.rmtree(W, ignore_errors=True)
            _copytree(saved, W)
            sc = {"plan": [list(p) for p in plan], "invs": [], "n": n}
            seen = set(known)
            cur = target
            dirty = []
            for ai, ab in enumerate(plan):
                bs.render(cur, sim.root)
                sim.clear_faults()
                fa = force_abort and ai == 0
                argv_ab = ["p0"] + bs.defines_argv(cur) + (["-f"] if fa else [])
                if ab[0] == "cut":
                    res = sim.invoke(develop, argv_ab, abort_at=ab[1])
                    fired = []
                else:
                    sim.set_fault(ab[1], ab[2], ab[3])
                    res = sim.invoke(develop, argv_ab)
                    fired = sim.fired()
                sim.clear_faults()
                sim.remove_lock()
                inv = record(sim, cur, res, {"abort": list(ab), "fired": fired}, seen, force=fa)
                sc["invs"].append(inv)
                if ab[0] == "fault" and ab[3] != "killbob" and fired and res["rc"] == 0:
                    # the step script died (exit 1 / SIGKILL / SIGTERM of its shell) and Bob reports success
                    sc.setdefault("death_ignored", []).append(list(ab[:4]))
                # which workspace was left incomplete when the run ended?  A later (aborted) run that
                # re-runs / prunes / resets the path takes over the responsibility for it.
                redone = {e[1] for e in res["log"] if e[0] in ("run", "emptyDir", "reset", "mkDir")}
                dirty = [p for p in dirty if p not in redone]
                runs = [e[1] for e in res["log"] if e[0] == "run"]
                if ab[0] == "fault" and fired and runs:
                    # the script died (or Bob was killed) after half of the output: whatever this invocation reports,
                    # the next one has to execute that step again
                    dirty.append(runs[-1])
                elif res["rc"] != 0 and res["log"] and res["log"][-1][0] == "emptyDir":
                    # Bob was killed right after emptying the directory
                    dirty.append(res["log"][-1][1])
                # between consecutive aborts the user may edit further or revert
                if ai + 1 < len(plan):
                    k = sr.random()
                    if k < 0.3:
                        cur = prev if cur is target else target
                    elif k < 0.5:
                        cur, _ = bs.edit(sr, cur, hist, job.get("kinds"))
            k = sr.random()
            if family == "inputs-revert":
                k = 0.5 if cur is target else 0.1    # back to the last successfully built project
            elif family == "forced":
                k = 0.1
            if k < 0.45:
                final = cur
                sc["follow"] = "same"
            elif k < 0.85:
                final = prev if cur is target else target
                sc["follow"] = "revert"
            else:
                final, e = bs.edit(sr, cur, hist, job.get("kinds"))
                sc["follow"] = "edit:" + e[0]
            bs.render(final, sim.root)
            resF = sim.invoke(develop, ["p0"] + bs.defines_argv(final))
            invF = record(sim, final, resF, {"final": True}, seen)
            sc["invs"].append(invF)
            rcB, snapsB, errB = clean_build(final)
            sc["rcB"], sc["errB"] = rcB, errB
            sc["diffs"] = []
            sc["false_uptodate"] = []
            if resF["rc"] == 0 and rcB == 0 and resF["dump"]:
                for p, d in sorted(resF["dump"]["steps"].items()):
                    if d["kind"] == "package":
                        sa = bs.snapshot(os.path.join(sim.root, p))
                        if sa != snapsB.get(d["pkg"]):
                            sc["diffs"].append({"package": d["pkg"], "after_abort": sa, "clean": snapsB.get(d["pkg"]), "path": p})
                touched = {e[1] for e in resF["log"] if e[0] in ("run", "emptyDir", "reset", "mkDir")}
                for p in dirty:
                    if p in resF["dump"]["steps"] and p not in touched:
                        sc["false_uptodate"].append(p)
            rec["scenarios"].append(sc)
    except bs.OutOfTime:
        rec["truncated"] = True
    finally:
        bs.shutdown_servers()
        if not job.get("keep"):
            shutil.rmtree(base, ignore_errors=True)
    return rec


SIG_SCM = "scm-switch-before-invalidate"


def run_scm_scenario(job):
    """worker: fixed scenario with a deterministic SCM-only checkout (git, commit pinned): the recipe edit replaces
    the SCM of directory `sub` (variant "switch": other git repository, switched in place; variant "attic": an
    import SCM, the old directory is moved to the attic); Bob is killed at the k-th state update of that
    invocation, for every k; the recipe edit is reverted; the follow-up invocation must finish and yield the
    from-scratch result of the original recipe."""
    import json
    import subprocess
    from gen import buildsim as bs
    variant = job["scm"]
    rec = {"key": job["key"], "scm": variant, "cases": [], "truncated": False, "skip": None}
    if shutil.which("git") is None:
        rec["skip"] = "git not available"
        return rec
    if time.time() > job["deadline"]:
        rec["truncated"] = True
        return rec
    base = os.path.join(job["tmp"], "scm-" + variant)
    shutil.rmtree(base, ignore_errors=True)
    W, saved = os.path.join(base, "w"), os.path.join(base, "saved")
    try:
        shas = {}
        env = dict(os.environ, GIT_CONFIG_GLOBAL=os.devnull, GIT_CONFIG_SYSTEM=os.devnull)
        for name in ("A", "B"):
            d = os.path.join(base, "git", name)
            os.makedirs(d)
            for cmd in (["git", "init", "-q", "-b", "main", "."], ["git", "add", "f.txt"],
                        ["git", "-c", "user.name=t", "-c", "user.email=t@example.org", "commit", "-q", "-m", "c"]):
                if cmd[1] == "add":
                    with open(os.path.join(d, "f.txt"), "w") as f:
                        f.write("content-%s\n" % name)
                subprocess.run(cmd, cwd=d, check=True, env=env, stdout=subprocess.DEVNULL, stderr=subprocess.DEVNULL)
            shas[name] = subprocess.run(["git", "rev-parse", "HEAD"], cwd=d, check=True, env=env,
                                        stdout=subprocess.PIPE).stdout.decode().strip()

        def write(root, which):
            os.makedirs(os.path.join(root, "recipes"), exist_ok=True)
            os.makedirs(os.path.join(root, "imp"), exist_ok=True)
            with open(os.path.join(root, "imp", "f.txt"), "w") as f:
                f.write("content-imported\n")
            with open(os.path.join(root, "config.yaml"), "w") as f:
                f.write('{"bobMinimumVersion": "0.24"}')
            if which in ("A", "B"):
                scm = {"scm": "git", "url": os.path.join(base, "git", which), "commit": shas[which], "dir": "sub"}
            else:
                scm = {"scm": "import", "url": "imp", "dir": "sub", "prune": True}
            with open(os.path.join(root, "recipes", "p0.yaml"), "w") as f:
                f.write(json.dumps({"root": True, "checkoutSCM": scm, "buildScript": "cp $1/sub/f.txt m\n",
                                    "packageScript": "cp $1/m m\n"}))
        other = "B" if variant == "switch" else "imp"
        sim = bs.Sim(W, job["repo"], job["deadline"] + 5)
        write(W, "A")
        r0 = sim.invoke(True, ["p0"])
        if r0["rc"] != 0:
            rec["skip"] = "initial build failed: %s" % r0["error"]
            return rec
        want = bs.snapshot(os.path.join(W, "dev/dist/p0/1/workspace"))
        shutil.copytree(W, saved, symlinks=True)
        for k in (job["only_k"] if job.get("only_k") else range(1, job.get("max_k", 40) + 1)):
            if time.time() > job["deadline"]:
                rec["truncated"] = True
                break
            shutil.rmtree(W, ignore_errors=True)
            shutil.copytree(saved, W, symlinks=True)
            write(W, other)
            ra = sim.invoke(True, ["p0"], abort_at=k)
            if ra["rc"] != "abort":
                break   # the invocation has fewer than k state updates
            sim.remove_lock()
            write(W, "A")
            rf = sim.invoke(True, ["p0"])
            got = bs.snapshot(os.path.join(W, "dev/dist/p0/1/workspace"))
            attic = os.path.join(W, "dev/src/p0/1/attic")
            rec["cases"].append({"k": k, "aborted_before": ra.get("aborted_before", [None])[:2], "rc": rf["rc"],
                                 "error": rf["error"], "same": got == want, "got": got,
                                 "attic": sorted(os.listdir(attic)) if os.path.isdir(attic) else [],
                                 "tail": rf["stdout"][-800:] if (rf["rc"] != 0 or got != want) else ""})
    except bs.OutOfTime:
        rec["truncated"] = True
    except subprocess.CalledProcessError as e:
        rec["skip"] = "git failed: %s" % e
    finally:
        bs.shutdown_servers()
        if not job.get("keep"):
            shutil.rmtree(base, ignore_errors=True)
    return rec


def judge_scm(ctx, rec):
    if rec.get("skip"):
        ctx.skip("scm switch scenario: " + rec["skip"])
        return
    for c in rec["cases"]:
        case = {"key": rec["key"], "scm": rec["scm"], "k": c["k"], "aborted_before": c["aborted_before"]}
        ctx.case(("scm", rec["scm"], c["k"]), sample=dict(case, rc=c["rc"], same=c["same"]))
        ctx.count("scm_switch_cut_before", "%s:%s" % (rec["scm"], c["aborted_before"][0]))
        if not isinstance(c["rc"], int):
            ctx.count("scenario", "no-verdict:%s" % c["rc"])
            continue
        if c["rc"] != 0:
            ctx.violation("SCM of a checkout directory replaced (%s), Bob killed before %s, edit reverted: the follow-up "
                          "invocation fails (%s)" % (rec["scm"], c["aborted_before"], c["error"]), dict(case, tail=c["tail"]),
                          SIG_SCM)
        elif not c["same"]:
            ctx.violation("SCM of a checkout directory replaced (%s), Bob killed before %s, edit reverted: the checkout is "
                          "treated as up to date and the package result is built from the wrong sources: %r"
                          % (rec["scm"], c["aborted_before"], c["got"]), dict(case, tail=c["tail"]), SIG_SCM)
        else:
            ctx.count("scenario", "scm-compared")


def run_job(job):
    return run_scm_scenario(job) if job.get("scm") else run_scenarios(job)


def _signature(sc):
    """a specific name for the way the workspace was poisoned"""
    for inv in sc["invs"][:-1]:
        ab = inv.get("aborted_before")
        last = inv["log"][-1] if inv["log"] else None
        if ab and last and ab[0] == "reset" and last[0] == "emptyDir" and last[1] == ab[1]:
            return SIG_PRUNE
        if ab and (ab[0] == "setAttic" or (last and last[0] == "setAttic" and ab[0] == "setDir")):
            return SIG_ATTIC
    return "abort-poisons-workspace"


def judge(ctx, rec):
    for inv in rec["prefix"]:
        ctx.count("prefix_invocation", "ok" if inv["rc"] == 0 else "failed")
    if rec.get("prefix_failed") or rec.get("ref_failed"):
        ctx.skip("generated project does not build (%s)" % (rec.get("ref_failed") or rec["prefix"][-1]["error"]))
        return
    for sc in rec["scenarios"]:
        ab = sc["invs"][0]
        case = {"key": rec["key"], "n_prefix": rec.get("n_prefix"), "kinds": rec.get("kinds"), "scenario": sc["n"],
                "family": rec.get("family"), "npkgs": rec.get("npkgs"),
                "n_chains": rec.get("n_chains", 2),
                "plan": sc["plan"], "follow": sc["follow"], "develop": rec.get("develop"), "edits": rec.get("edits")}
        ctx.case((rec["key"], sc["plan"], sc["follow"]), nontrivial=len(ab["log"]) > 0,
                 sample={"key": rec["key"], "plan": sc["plan"], "follow": sc["follow"], "ops_before_cut": len(ab["log"])})
        ctx.count("abort_kind", sc["plan"][0][0] + (":" + sc["plan"][0][3] if sc["plan"][0][0] == "fault" else ""))
        ctx.count("aborts_in_a_row", len(sc["plan"]))
        ctx.count("follow_up", sc["follow"].split(":")[0])
        if ab.get("aborted_before"):
            ctx.count("cut_before", ab["aborted_before"][0])
        fin = sc["invs"][-1]
        if sc["rcB"] != 0:
            ctx.count("scenario", "clean-build-fails")
            continue
        for d in sc.get("death_ignored", []):
            ctx.violation("the script of step %s/%s died (%s) after half of its output, but the invocation exits 0: the partial "
                          "workspace is recorded as the step's result" % (d[1], d[2], d[3]), case, "script-death-ignored")
        sig = _signature(sc)
        if not isinstance(fin["rc"], int) or any(i["rc"] in ("timeout", "harness-error") for i in sc["invs"]):
            # time-out of a (heavily loaded) machine or a harness problem: no verdict
            ctx.count("scenario", "no-verdict:%s" % fin["rc"])
            ctx.skip("an invocation timed out or the harness failed (%s)" % fin["rc"])
            continue
        if fin["rc"] != 0:
            ctx.violation("the invocation following an aborted build does not complete (%s)" % fin["error"],
                          dict(case, tail=fin["tail"]), sig + ":follow-up-fails")
            continue
        ctx.count("scenario", "compared")
        if sc["diffs"]:
            d = sc["diffs"][0]
            ctx.violation("after an aborted build the package result of %s differs from the clean build" % d["package"],
                          dict(case, diff=d), sig)
        elif sc["false_uptodate"]:
            ctx.violation("workspace %s was left incomplete by the aborted run and is treated as up to date"
                          % sc["false_uptodate"][0], case, sig + ":false-uptodate")


FAMILIES = ["generic", "inputs-revert", "forced", "generic"]


def _jobs(ctx, n, tag, share, **kw):
    deadline = time.time() + max(5.0, ctx.time_left() * share)
    return [dict(repo=ctx.repo, tmp=ctx.tmp, key="%s-%d-%s-%d" % (ctx.prop, ctx.seed, tag, i), deadline=deadline,
                 n_prefix=(i % 3), family=FAMILIES[i % 4], **kw) for i in range(n)]


def _must_jobs(ctx):
    """a guaranteed minimum whatever the machine load: small projects, a few fault plans each, no deadline"""
    far = time.time() + 3600
    out = []
    for k in range(ctx.scale(6, 12)):
        out.append(dict(repo=ctx.repo, tmp=ctx.tmp, key="%s-%d-must-%d" % (ctx.prop, ctx.seed, k), deadline=far,
                        n_prefix=1 + (k % 2), family=["inputs-revert", "forced", "generic"][k % 3], npkgs=2,
                        max_plans=ctx.scale(5, 10), n_chains=0, faults_first=True))
    return out


_CACHE = {}


def oracle(ctx):
    n = ctx.scale(32, 400)
    jobs = _jobs(ctx, n, "abort", 0.55, max_plans=ctx.scale(14, 0), n_chains=ctx.scale(2, 6))
    scm_jobs = [dict(repo=ctx.repo, tmp=ctx.tmp, key="%s-%d-scm-%s" % (ctx.prop, ctx.seed, v), scm=v,
                     deadline=jobs[0]["deadline"], max_k=ctx.scale(12, 40)) for v in ("switch", "attic")]
    recs = ctx.parallel(run_job, scm_jobs + _must_jobs(ctx) + jobs)
    scm_recs, recs = recs[:len(scm_jobs)], recs[len(scm_jobs):]
    _CACHE["recs"] = recs
    for rec in scm_recs:
        judge_scm(ctx, rec)
    for rec in recs:
        judge(ctx, rec)
    ctx.notes["scenarios"] = sum(len(r["scenarios"]) for r in recs)
    if not any(r["scenarios"] for r in recs):
        ctx.skip("no abort scenario completed within the time budget")


def correspond(ctx):
    from gen import buildsim as bs
    recs = _CACHE.get("recs")
    if recs is None:
        recs = ctx.parallel(run_scenarios, _jobs(ctx, ctx.scale(24, 300), "abort", 0.8, max_plans=ctx.scale(14, 0), n_chains=2))
    allreqs, spans = [], []
    for rec in recs:
        if rec.get("prefix_failed") or rec.get("ref_failed"):
            continue
        for sc in rec["scenarios"]:
            invs = rec["prefix"] + sc["invs"]
            for inv in invs:
                inv["model"] = bs.model_params(inv)
            h = {"key": "%s/%d" % (rec["key"], sc["n"]), "invs": invs, "develop": rec["develop"], "jobs": 1,
                 "edits": [sc["plan"], sc["follow"]], "root": rec.get("root", "")}
            for i, inv in enumerate(invs):
                inv["i"] = i
            reqs, idx = c01.model_requests(h)
            h["_reqs"], h["_idx"] = reqs, idx
            spans.append((h, len(allreqs), len(reqs)))
            allreqs += reqs
    if not allreqs:
        ctx.skip("correspondence: no scenario available")
        return
    replies = ctx.lean(DRIVER, allreqs)
    for h, a, n in spans:
        c01.correspond_history(ctx, h, replies[a:a + n], "builder micro-op log under abort == Model.Builder.cook with fuel")


def replay(ctx, case):
    if case.get("scm"):
        rec = run_scm_scenario(dict(repo=ctx.repo, tmp=ctx.tmp, key=case["key"], scm=case["scm"],
                                    deadline=time.time() + 900, only_k=[case["k"]]))
        judge_scm(ctx, rec)
        return
    job = dict(repo=ctx.repo, tmp=ctx.tmp, key=case["key"], n_prefix=(case["n_prefix"] if case.get("n_prefix") is not None else int(case["key"].rsplit("-", 1)[1]) % 3),
               deadline=time.time() + 900, max_plans=0, n_chains=case.get("n_chains", 2), kinds=case.get("kinds"),
               only_plan=case["plan"], family=case.get("family") or "generic", npkgs=case.get("npkgs"))
    rec = run_scenarios(job)
    judge(ctx, rec)


MANIFEST = {
    "text": "Proved in Lean over the builder model shared with C01: truthful_at_every_cut (after every prefix of the micro-operations "
            "of every invocation - any project, flags, cut point, junk content left by a killed script, failing script - the stored "
            "state claims no more than the disk holds), abort_then_cook_eq_clean (any history of successful, failing and killed "
            "invocations followed by a successful one yields the from-scratch content in every reachable workspace), "
            "cut_in_script_unclaimed (while a script runs / after it failed nothing is claimed about its workspace; holds without "
            "any hypothesis). The proofs depend on constants regenerated from the source: the prune sites invalidate the state "
            "before emptying a workspace (fix 4782bbe; reverting it breaks the proof). Tied to the source by replaying real aborted "
            "invocations (Bob killed at the k-th state update; scripts that exit 1 / kill themselves / kill Bob after half of "
            "their output) against the model with the corresponding fuel, and by an oracle that enumerates cut points, chains of "
            "aborts and follow-up projects (same / reverted / edited) and compares with the clean build; a fixed git scenario "
            "covers SCM switch / attic move.  Scenario families run first as a load-independent minimum: source edit -> "
            "failing/killed run -> revert to byte-identical inputs, killed -f run -> same project without -f, scripts whose shell "
            "dies from SIGKILL/SIGTERM while Bob survives (such an invocation must not exit 0 and the next one must re-execute "
            "the step).",
    "note": "trusted: Lean kernel, harness/props/c05.py, harness/gen/buildsim*.py, tools/consts/c05.py, bash, process-kill "
            "semantics (completed file operations persist; machine crashes and the state-file commit are C10); the log-level "
            "statement no_false_uptodate is proved as no_false_uptodate_partial (after a cut inside the script of a workspace "
            "the next successful invocation of any project reaching a step there starts that script again) under the added "
            "hypothesis that the second invocation requests that step (no --no-deps; --checkout-only only for a checkout step); for arbitrary flags "
            "the statement is refuted in Lean (no_false_uptodate_refuted: --checkout-only legitimately leaves a build step alone)",
    "technique": "Lean 4 proof over hand-written model + differential correspondence + cut-point enumeration on small projects",
}
