"""C13 - steps run in exactly the declared environment.

oracle:      (a) generated StepSpecs (the step.spec format `bob _invoke` reads) are executed through the REAL
                 StepSpec.fromFile + Invoker.executeStep + BashLanguage.setupCall + real `bash`; the step script
                 dumps the environment of a child (`cat /proc/self/environ`), "$@" and the three path arrays
                 NUL-separated.  The dump must be exactly: declared variables + PATH/LD_LIBRARY_PATH/BOB_CWD +
                 whitelisted host variables (all of them with -E), values byte-exact, arguments in order, every
                 tool path a component of PATH, every library path of LD_LIBRARY_PATH - computed here from the
                 declaration only, independent of the Lean model;
             (b) small generated projects through `bob dev` (child process, harness/gen/c13_child.py) with
                 -E / -e / -D / whitelist / whitelistRemove / weak variables / tools / fingerprint script:
                 what each checkout, build, package and fingerprint script saw vs. the recipe declaration;
             (c) sandboxed steps (slim and image sandbox) when the helper works here: project directory listing
                 and write attempts inside the sandbox vs. the declared dependencies (projects outside /tmp so that
                 the whiteout of the project directory matters);
             (d) fingerprint scripts through `bob _invoke step.spec fingerprint` in a child whose standard input is
                 /dev/null, a pipe or a socket and whose HOME has a .bashrc: only fingerprintVars + whitelist visible.
correspond:  the same specs through the Lean model `drv_c13`: generated prolog text == head of the real script
             file, argv == BashLanguage.setupCall's, model environment/arguments/arrays == what real bash
             produced; Env.prune / whitelist / fingerprint preamble / StepSpec.fromStep (the step.spec files
             written by `bob dev`) / helper argv (captured at the subprocess boundary) == model.
"""
import json
import os
import shutil
import subprocess
import sys

DRIVER = "drv_c13"
RULE = ("streams: (a) StepSpec dictionaries: 0-6 declared variables (names from a pool that collides with host, "
        "whitelist and Bob's own variables; values of length 0-12 over printable ASCII, all shell meta characters, "
        "control characters 1-31/127, newline, CR, non-ASCII incl. astral and U+2028), 0-3 tool paths, 0-3 library "
        "paths, 0-4 arguments (relative, absolute, invalid placeholder, with '..' and '//'), path arrays with "
        "non-empty names over the same alphabet, host environments with decoys and collisions, preserveEnv on/off, "
        "whitelists; (b) generated Bob projects (root + library + tool provider [+ sandbox image]) with strong/weak/"
        "undeclared variables per step, default.yaml environment/whitelist/whitelistRemove, -D/-e/-E; (c) the same "
        "under --slim-sandbox/--sandbox/--dev-sandbox/--strict-sandbox, plus StepSpec level sandbox layouts (0-3 declared and 1-2 "
        "undeclared neighbour workspaces, stable or workspace paths, rw/ro host mounts, user nobody/root/$USER); (d) fingerprint "
        "specs with stdin null/pipe/socket. A case is distinct by its full JSON and non-trivial if at least one value, argument "
        "or name needs quoting.")
ASSUMPTIONS = [
    "bash (5.x) implements the word grammar modelled by ShellEnv.lexWord and the start-up file rule ShellEnv.bashReadsRc "
    "(-c command + socket stdin reads ~/.bashrc unless --norc); both validated against the real bash on every run",
    "variable names reserved by bash itself (readonly UID/EUID/PPID/SHELLOPTS/BASHOPTS/BASH_*, dynamic RANDOM/SECONDS/..., "
    "IFS/PS4/BASH_ENV that change bash's own behaviour) are outside the model; PWD, OLDPWD, SHLVL and _ are set by bash itself",
    "os.path.abspath / os.listdir / os.path.exists and the string substitution of sandbox mount paths are parameters of the model "
    "(abspath is transliterated as posixAbs and compared on every path)",
    "bob-namespace-sandbox (C) and the kernel implement the mount contract ShellEnv.resolve: exercised only when user namespaces work; "
    "HOME and PWD inside a sandbox are set by the helper",
    "PowerShell, Windows/MSYS path munging, the `declare -p` env file, the make jobserver's MAKEFLAGS/FIFO are not covered",
    "strings contain no NUL and are valid Unicode (no lone surrogates): neither can be passed through execve/JSON",
]

BASH_INTERNAL = ("PWD", "OLDPWD", "SHLVL", "_")
BOB_VARS = ("PATH", "LD_LIBRARY_PATH", "BOB_CWD")
INVALID = "/invalid/exec/path/of/"

VALUE_ALPHABET = (list("abcXYZ019_-./:=+,@%") + list(" \t\n\r'\"$\\`!#&*()[]{}<>|;?~^") + [chr(c) for c in (1, 2, 7, 8, 11, 12, 27, 31, 127)]
                  + list("ä€ßπ中\u2028\u00a0\U0001F600\x80\x85"))
NAME_POOL = ["A", "B", "C_1", "_x", "a", "lower", "VAR_LONG_NAME_1", "HOME", "TERM", "USER", "PATH", "LD_LIBRARY_PATH", "BOB_CWD",
             "WL1", "WL2", "DECOY1", "DECOY2", "MAKEFLAGS", "CC", "X9", "EDITOR", "SHELL"]
HOST_ONLY = ["DECOY1", "DECOY2", "DECOY_3", "SSH_AUTH_SOCK", "SECRET_TOKEN", "LS_COLORS", "http_proxy"]


def _tools():
    t = {}
    for n in ("cat", "bash"):
        p = shutil.which(n, path="/usr/bin:/bin:/usr/local/bin")
        if p is None:
            raise RuntimeError("no %s on this machine" % n)
        t[n] = p
    return t


TOOLS = None


def tools():
    global TOOLS
    if TOOLS is None:
        TOOLS = _tools()
        # stdin must not be a socket: bash then believes it is run by rshd/sshd and sources ~/.bashrc
        p = subprocess.run([TOOLS["bash"], "-c", 'printf %s "$PATH"'], env={}, stdout=subprocess.PIPE, stdin=subprocess.DEVNULL)
        TOOLS["default_path"] = p.stdout.decode()
    return TOOLS


# ------------------------------------------------------------------ generators

def gen_value(r, maxlen=12):
    k = r.random()
    if k < 0.08:
        return ""
    if k < 0.2:
        return "".join(r.choice("abcXYZ019_-./:=+,@%") for _ in range(r.randrange(1, maxlen)))
    if k < 0.3:
        return r.choice(["it's", 'say "hi"', "$HOME", "${A}", "$(id)", "`id`", "a\\", "\\", "'", "''", "'\"'\"'", "a b", " ", "\n", "a\nb",
                         "*", "~", "~root", "#c", "!x", "{a,b}", "a;b", "a&&b", "x|y", ">f", "$", "$$", "$'x'", "\\n", "a\\'b", "\r\n", "-n", "--",
                         "ä", "\U0001F600", "é'\"$\\"])
    return "".join(r.choice(VALUE_ALPHABET) for _ in range(r.randrange(1, maxlen)))


def gen_path(r, absolute=None):
    parts = []
    for _ in range(r.randrange(1, 4)):
        k = r.random()
        if k < 0.55:
            parts.append(r.choice(["dev", "dist", "workspace", "bin", "lib", "usr", "a", "b1", "x-y", "p.q"]))
        elif k < 0.65:
            parts.append(r.choice(["..", ".", ""]))
        else:
            parts.append(gen_value(r, 6).replace("/", "_") or "e")
    p = "/".join(parts)
    absolute = r.random() < 0.4 if absolute is None else absolute
    if absolute:
        p = ("//" if r.random() < 0.05 else "/") + p
    return p


def gen_name(r):
    """package / tool names: never empty (bash rejects an empty subscript; the recipe schema rules it out)"""
    k = r.random()
    if k < 0.6:
        return r.choice(["lib", "root", "a.b", "a+b", "tool-1", "x::y", "pkg_9", "gcc", "target-toolchain", "@", "%", "a=b", "0"])
    v = gen_value(r, 6)
    return v if v else "n"


def gen_spec_case(r, idx):
    """one StepSpec + host environment + invoker settings (pure data, JSON-able)"""
    nvars = r.choice([0, 1, 2, 3, 3, 4, 6])
    env = {}
    for _ in range(nvars):
        env[r.choice(NAME_POOL)] = gen_value(r)
    whitelist = set(r.sample(["PATH", "TERM", "SHELL", "USER", "HOME"], r.randrange(0, 6)))
    whitelist |= set(r.sample(["WL1", "WL2", "A", "CC", "LD_LIBRARY_PATH", "BOB_CWD", "EDITOR"], r.randrange(0, 3)))
    host = {}
    for n in r.sample(HOST_ONLY, r.randrange(1, 5)):
        host[n] = gen_value(r)
    for n in r.sample(NAME_POOL, r.randrange(0, 6)):
        host[n] = gen_value(r)
    for n in list(whitelist):
        if r.random() < 0.6 and n not in host:
            host[n] = gen_value(r)
    if r.random() < 0.8 or "PATH" in host:
        # bash itself is looked up through the PATH the step gets: keep its directory on every generated PATH
        host["PATH"] = r.choice(["/usr/bin:/bin", "/usr/local/bin:/usr/bin:/bin", "/bin:/usr/bin:/a b:/c'd", "/nonexistent:/usr/bin:/bin"])
    if "HOME" in host:
        host["HOME"] = r.choice(["/nonexistent-home", "/root", "/tmp"])
    ws = r.choice(["ws", "ws", "dev/build/x/1/workspace", "w s", "it's", "w$s", "wä", "w\"q", "w\\b", "-w", "w\nl"])
    ntools = r.choice([0, 0, 1, 2, 3])
    case = {
        "idx": idx,
        "env": env,
        "whitelist": sorted(whitelist),
        "host": host,
        "preserve": r.random() < 0.2,
        "trace": r.random() < 0.15,
        "paths": [gen_path(r) for _ in range(ntools)],
        "libraryPaths": [gen_path(r) for _ in range(r.choice([0, 0, 1, 2, 3]))],
        "ws": ws,
        "args": [r.choice([gen_path(r), INVALID + gen_name(r).replace("/", "_")]) if r.random() < 0.9 else gen_value(r) or "x"
                 for _ in range(r.choice([0, 1, 2, 2, 3, 4]))],
        "allPaths": sorted([gen_name(r), gen_path(r)] for _ in range(r.choice([0, 1, 2, 3, 4]))),
        "depPaths": sorted([gen_name(r), gen_path(r)] for _ in range(r.choice([0, 1, 2, 3]))),
        "toolPaths": sorted([gen_name(r), gen_path(r)] for _ in range(ntools)),
    }
    return case


def nontrivial(case):
    import shlex
    vals = list(case["env"].values()) + case["args"] + case["paths"] + [n for n, _ in case["allPaths"]]
    return any(v == "" or shlex.quote(v) != v for v in vals)


# ------------------------------------------------------------------ running one spec on the implementation

DUMP_SCRIPT = """\
{cat} /proc/self/environ > {out}.env
for a in "$@"; do printf '%s\\0' "$a"; done > {out}.args
for n in BOB_ALL_PATHS BOB_DEP_PATHS BOB_TOOL_PATHS; do
    declare -n ref=$n
    for k in "${{!ref[@]}}"; do printf '%s\\0%s\\0%s\\0' "$n" "$k" "${{ref[$k]}}"; done
done > {out}.arr
"""


def spec_dict(case, base, main_script, slim=False, sandbox=None, dep_mounts=(), env_file=None):
    from bob.utils import asHexStr
    from bob import BOB_INPUT_HASH
    d = {
        'envFile': env_file, 'envWhiteList': case["whitelist"], 'logFile': None, 'isJenkins': False,
        'scriptHint': os.path.join(base, "script"), 'slimSandbox': slim, 'vsn': asHexStr(BOB_INPUT_HASH), 'language': 'bash',
        'env': case["env"], 'paths': case["paths"], 'libraryPaths': case["libraryPaths"],
        'workspace': (case["ws"], case.get("wsExec", case["ws"])), 'args': case["args"],
        'allPaths': case["allPaths"], 'depPaths': case["depPaths"], 'toolPaths': case["toolPaths"],
        'netAccess': False, 'clean': None, 'depMounts': [list(x) for x in dep_mounts],
        'preRunCmds': [], 'setupScript': "", 'mainScript': main_script, 'updateScript': "", 'postRunCmds': [],
        'fingerprintScript': "",
    }
    if sandbox is not None:
        d['sandbox'] = sandbox
    return d


def _decode(b):
    return b.decode("utf-8", "surrogateescape")


def read_dump(out):
    res = {}
    try:
        raw = open(out + ".env", "rb").read().split(b"\0")
        env = {}
        for item in raw:
            if not item:
                continue
            k, _, v = item.partition(b"=")
            env[_decode(k)] = _decode(v)
        res["env"] = env
        raw = open(out + ".args", "rb").read()
        res["args"] = [_decode(x) for x in raw.split(b"\0")[:-1]] if raw else []
        raw = open(out + ".arr", "rb").read().split(b"\0")[:-1]
        arrays = {"BOB_ALL_PATHS": {}, "BOB_DEP_PATHS": {}, "BOB_TOOL_PATHS": {}}
        for i in range(0, len(raw) - 2, 3):
            arrays[_decode(raw[i])][_decode(raw[i + 1])] = _decode(raw[i + 2])
        res["arrays"] = arrays
    except OSError as e:
        res["dump_error"] = str(e)
    return res


def run_spec_case(arg):
    """(worker process) execute one generated StepSpec through the real Invoker; returns what the script saw"""
    case, root = arg
    import asyncio
    import io
    from bob.languages import StepSpec
    from bob.invoker import Invoker, InvocationMode
    t = tools()
    base = os.path.join(root, "c%d" % case["idx"])
    os.makedirs(base, exist_ok=True)
    out = os.path.join(base, "dump")
    script = DUMP_SCRIPT.format(cat=t["cat"], out=out)
    d = spec_dict(case, base, script)
    saved_env = dict(os.environ)
    saved_cwd = os.getcwd()
    res = {"base": base}
    try:
        os.chdir(base)
        spec = StepSpec.fromFile(io.StringIO(json.dumps(d)))
        # the argv the language back end hands to the invoker (public static entry point)
        tmp = os.path.join(base, "tmp-setup")
        os.makedirs(tmp, exist_ok=True)
        _real, _exec, argv = spec.language.setupCall(spec, tmp, case["preserve"], case["trace"])
        res["argv"] = argv
        os.environ.clear()
        os.environ.update(case["host"])
        inv = Invoker(spec, case["preserve"], True, False, False, case["trace"], True)
        loop = asyncio.new_event_loop()
        try:
            res["ret"] = loop.run_until_complete(inv.executeStep(InvocationMode.CALL, False))
        finally:
            loop.close()
        if res["ret"] != 0:
            res["stdio"] = inv.getStdio()[-400:]
        try:
            res["script"] = open(os.path.join(base, "script"), encoding="utf-8", newline="").read()
        except OSError:
            res["script"] = None
        res.update(read_dump(out))
        res["pycwd"] = base
    except Exception as e:  # noqa - reported as outcome, compared with the model / judged by the oracle
        res["exception"] = "%s: %s" % (type(e).__name__, e)
    finally:
        os.environ.clear()
        os.environ.update(saved_env)
        os.chdir(saved_cwd)
    return res


# ------------------------------------------------------------------ the property, computed from the declaration alone

def expected_view(case, pycwd):
    """what the step script must see, from the declaration only (independent of the Lean model)"""
    ap = lambda p: os.path.normpath(os.path.join(pycwd, p))
    host_visible = dict(case["host"]) if case["preserve"] else {k: v for k, v in case["host"].items() if k in case["whitelist"]}
    env = dict(host_visible)
    env.update(case["env"])
    base_path = host_visible["PATH"] if "PATH" in host_visible else tools()["default_path"]
    env["PATH"] = ":".join([ap(p) for p in case["paths"]] + [base_path])
    env["LD_LIBRARY_PATH"] = ":".join(ap(p) for p in case["libraryPaths"])
    env["BOB_CWD"] = ap(case.get("wsExec", case["ws"]))
    arrays = {"BOB_ALL_PATHS": {}, "BOB_DEP_PATHS": {}, "BOB_TOOL_PATHS": {}}
    for name, key in (("BOB_ALL_PATHS", "allPaths"), ("BOB_DEP_PATHS", "depPaths"), ("BOB_TOOL_PATHS", "toolPaths")):
        groups = {}
        for n, p in case[key]:
            groups.setdefault(n, set()).add(ap(p))
        arrays[name] = groups
    return {"env": env, "args": [ap(a) for a in case["args"]], "arrays": arrays}


def strip_internal(env):
    return {k: v for k, v in env.items() if k not in BASH_INTERNAL}


def judge_spec(ctx, case, res):
    """oracle on one executed spec; every failure is a concrete replayable input"""
    rec = {"kind": "spec", "case": case}
    if "exception" in res:
        ctx.violation("executing the generated step raised " + res["exception"], rec, "spec-exception")
        return False
    if res.get("ret") != 0 or "dump_error" in res:
        ctx.violation("the generated step script failed (exit %r, %s)" % (res.get("ret"), res.get("dump_error")), rec, "step-failed")
        return False
    want = expected_view(case, res["pycwd"])
    got_env = strip_internal(res["env"])
    ok = True
    for k in sorted(set(got_env) | set(want["env"])):
        if k not in want["env"]:
            leak = k in case["host"]
            ctx.violation("variable %r=%r is visible to the step but is neither declared, a Bob variable nor whitelisted" % (k, got_env[k]),
                          rec, "host-variable-leak" if leak else "undeclared-variable-visible")
            ok = False
        elif k not in got_env:
            ctx.violation("declared/whitelisted variable %r is not visible to the step" % k, rec,
                          "declared-variable-missing" if k in case["env"] or k in BOB_VARS else "whitelisted-variable-missing")
            ok = False
        elif got_env[k] != want["env"][k]:
            ctx.violation("variable %r arrives as %r instead of %r" % (k, got_env[k], want["env"][k]), rec,
                          "bob-variable-value" if k in BOB_VARS else "env-value-mismatch")
            ok = False
    if res["args"] != want["args"]:
        ctx.violation("positional arguments %r instead of %r" % (res["args"], want["args"]), rec, "args-mismatch")
        ok = False
    path_items = got_env.get("PATH", "").split(":")
    for p in [os.path.normpath(os.path.join(res["pycwd"], p)) for p in case["paths"]]:
        if ":" not in p and p not in path_items:
            ctx.violation("tool path %r is not on PATH %r" % (p, got_env.get("PATH")), rec, "tool-not-on-path")
            ok = False
    ld_items = got_env.get("LD_LIBRARY_PATH", "").split(":")
    for p in [os.path.normpath(os.path.join(res["pycwd"], p)) for p in case["libraryPaths"]]:
        if ":" not in p and p not in ld_items:
            ctx.violation("library path %r is not on LD_LIBRARY_PATH %r" % (p, got_env.get("LD_LIBRARY_PATH")), rec, "lib-not-on-ld-path")
            ok = False
    for name, groups in want["arrays"].items():
        got = res["arrays"].get(name, {})
        if set(got) != set(groups) or any(got[n] not in groups[n] for n in got):
            ctx.violation("array %s is %r, declared %r" % (name, got, {n: sorted(v) for n, v in groups.items()}), rec, "array-mismatch")
            ok = False
    return ok


def spec_cases(ctx, n, tag):
    r = ctx.subrng(tag)
    return [gen_spec_case(r, i) for i in range(n)]


def run_specs(ctx, cases, tag):
    root = os.path.join(ctx.tmp, tag)
    os.makedirs(root, exist_ok=True)
    return ctx.parallel(run_spec_case, [(c, root) for c in cases])


SPEED = {"per_case": 0.01}     # measured wall seconds per spec case (16 workers): scales the estimates of the later phases


def affordable(ctx, what, units):
    """skip a phase whose estimated duration (units x measured cost of one spec case) does not fit into the remaining budget"""
    est = units * SPEED["per_case"]
    if est > ctx.time_left() - ctx.budget * 0.15:
        ctx.skip("%s (estimated %.0f s on this machine, %.0f s left)" % (what, est, max(ctx.time_left(), 0)))
        return False
    return True


EXECUTED = []      # (case, result) of the oracle's spec stream; the correspondence compares the same executions with the model


def spec_stream(ctx, n, tag, judge, sink, reserve):
    """run n generated specs in chunks through the implementation until `reserve` seconds of the budget are left;
    judge each with the oracle"""
    cases = spec_cases(ctx, n, tag)
    chunk = 64            # the first chunk measures the speed of this machine, later ones grow with the time that is left
    i = 0
    import time
    while i < len(cases):
        if ctx.time_left() < reserve:
            ctx.skip("%s stream cut after %d of %d cases (time)" % (tag, i, len(cases)))
            break
        part = cases[i:i + chunk]
        t0 = time.time()
        results = run_specs(ctx, part, "%s%d" % (tag, i))
        for j, (case, res) in enumerate(zip(part, results)):
            if "exception" in res or res.get("ret") != 0 or "dump_error" in res:
                # a failed fork/exec on an overloaded machine is not a verdict: run the case once more, alone
                res = results[j] = run_spec_case((case, os.path.join(ctx.tmp, "%s%d-retry" % (tag, i))))
                ctx.count("oracle_spec", "retried")
        for case, res in zip(part, results):
            ok = judge_spec(ctx, case, res) if judge else True
            ctx.case(case, nontrivial=nontrivial(case),
                     sample={"declared": case["env"], "args": case["args"], "seen": strip_internal(res.get("env", {}))} if i == 0 else None)
            ctx.count("oracle_spec", "ok" if ok else "violation")
            ctx.count("spec_vars", len(case["env"]))
            ctx.count("spec_tools", len(case["paths"]))
            ctx.count("spec_args", len(case["args"]))
            ctx.count("spec_preserve_env", case["preserve"])
            sink.append((case, res))
        shutil.rmtree(os.path.join(ctx.tmp, "%s%d" % (tag, i)), ignore_errors=True)
        shutil.rmtree(os.path.join(ctx.tmp, "%s%d-retry" % (tag, i)), ignore_errors=True)
        i += len(part)
        dt = max(time.time() - t0, 0.001)
        per_case = dt / len(part)
        SPEED["per_case"] = per_case
        ctx.notes["spec_case_wall_s"] = round(per_case, 4)
        if i >= len(cases):
            break
        afford = int((ctx.time_left() - reserve) / per_case * 0.7)
        if afford < 16:
            ctx.skip("%s stream cut after %d of %d cases (time)" % (tag, i, len(cases)))
            break
        chunk = max(16, min(afford, ctx.scale(500, 4000), len(cases) - i))


def oracle(ctx):
    try:
        _oracle(ctx)
    finally:
        cleanup_outside()


def _oracle(ctx):
    tools()
    del EXECUTED[:]
    del PROJECTS[:]
    del SANDBOXED[:]
    del FINGERPRINTS[:]
    # shares of the time budget: spec stream, then `bob dev` projects, then sandboxed specs; the rest is for the correspondence
    import time
    t = time.time()
    spec_stream(ctx, ctx.scale(1500, 80000), "spec", True, EXECUTED, ctx.budget * 0.6)
    ctx.notes["t_spec_stream_s"] = round(time.time() - t, 1)
    t = time.time()
    oracle_projects(ctx)
    ctx.notes["t_projects_s"] = round(time.time() - t, 1)
    t = time.time()
    oracle_sandbox(ctx)
    ctx.notes["t_sandbox_s"] = round(time.time() - t, 1)
    t = time.time()
    oracle_fingerprint(ctx)
    ctx.notes["t_fingerprint_s"] = round(time.time() - t, 1)


# ------------------------------------------------------------------ full path: generated projects through `bob dev`

PROJECTS = []       # (case, result) of the project runs, reused by the correspondence
SANDBOXED = []      # (case, result) of the spec level sandbox runs


def sandbox_available():
    helper = os.path.join(_repo(), "bin", "bob-namespace-sandbox")
    if not os.path.exists(helper):
        return False
    try:
        return subprocess.run([helper, "-C"], stdout=subprocess.DEVNULL, stderr=subprocess.DEVNULL, stdin=subprocess.DEVNULL,
                              timeout=120).returncode == 0
    except Exception:  # noqa
        return False


def _repo():
    import core
    return core.REPO if hasattr(core, "REPO") else os.environ.get("BOB_VERIF_REPO", "/repo")


def project_cases(ctx):
    from gen import c13proj
    r = ctx.subrng("projects")
    n_plain = ctx.scale(6, 60)
    modes = ["no"] * n_plain
    if sandbox_available():
        modes += ["slim"] * ctx.scale(2, 12) + [["yes", "dev", "strict"][(ctx.seed + i) % 3] for i in range(ctx.scale(1, 9))]
    else:
        ctx.skip("sandboxed `bob dev` runs: bob-namespace-sandbox -C fails here (no user namespaces)")
    return [c13proj.gen_project(r, i, gen_value, m) for i, m in enumerate(modes)]


OUTSIDE_ROOTS = []


def run_projects(ctx, cases, tag="proj"):
    from gen import c13proj
    root = os.path.join(ctx.tmp, tag)
    os.makedirs(root, exist_ok=True)
    sroot = root
    if any(c["sandbox"] != "no" for c in cases):
        sroot, outside = outside_tmp_root(ctx, tag)
        if outside:
            OUTSIDE_ROOTS.append(sroot)
    t = tools()
    return ctx.parallel(c13proj.run_project, [(c, sroot if c["sandbox"] != "no" else root, ctx.repo, t["cat"], sys.executable) for c in cases])


def cleanup_outside():
    while OUTSIDE_ROOTS:
        shutil.rmtree(OUTSIDE_ROOTS.pop(), ignore_errors=True)


def visible_host(case, home):
    host = dict(case["host"])
    host["HOME"] = home
    if case["preserve"]:
        return host
    from gen import c13proj
    wl = c13proj.whitelist_of(case)
    return {k: v for k, v in host.items() if k in wl}


def judge_project(ctx, case, res):
    from gen import c13proj
    rec = {"kind": "project", "case": case}
    if res.get("timeout") or "exception" in res:
        ctx.skip("a `bob dev` child did not finish (%s)" % (res.get("exception") or "timeout"))
        return None
    if res.get("rc") != 0:
        ctx.violation("`bob dev` failed on a generated project:\n" + res.get("out", "")[-1500:], rec, "bob-dev-failed")
        return False
    sandboxed = case["sandbox"] != "no"
    fat = case["sandbox"] in ("yes", "dev", "strict")
    exp = c13proj.expected_steps(case, res["dir"], tools()["default_path"], "linux")
    hostvis = visible_host(case, res["home"])
    ok = True
    for key, e in sorted(exp.items()):
        st = res["steps"].get(key)
        if st is None or "env" not in st:
            ctx.violation("step %s was not executed or left no dump" % key, rec, "step-not-executed")
            ok = False
            continue
        want = dict(hostvis)
        want.update(e["declared"])
        exec_of = (lambda path, st=st: _exec_path(res, path, st)) if sandboxed else (lambda path: path)
        tool_paths = [exec_of(p) for p in e["paths"]]
        base_path = "/usr/bin:/bin" if fat and key.split("/")[0] != "sbx" else (hostvis["PATH"] if "PATH" in hostvis else tools()["default_path"])
        want["PATH"] = ":".join(tool_paths + [base_path])
        want["LD_LIBRARY_PATH"] = ":".join(exec_of(p) for p in e["libs"])
        want["BOB_CWD"] = exec_of(e["cwd"])
        got = strip_internal(st["env"])
        if sandboxed:                      # HOME inside a sandbox is set by the helper (passwd entry / $HOME)
            got.pop("HOME", None)
            want.pop("HOME", None)
        for k in sorted(set(got) | set(want)):
            if k not in want:
                ctx.violation("%s: variable %r=%r is visible but neither declared, a Bob variable nor whitelisted" % (key, k, got[k]), rec,
                              "host-variable-leak" if k in case["host"] else "undeclared-variable-visible")
                ok = False
            elif k not in got:
                ctx.violation("%s: variable %r (declared or whitelisted) is not visible" % (key, k), rec,
                              "declared-variable-missing" if k in e["declared"] or k in BOB_VARS else "whitelisted-variable-missing")
                ok = False
            elif got[k] != want[k]:
                ctx.violation("%s: variable %r arrives as %r instead of %r" % (key, k, got[k], want[k]), rec,
                              "bob-variable-value" if k in BOB_VARS else "env-value-mismatch")
                ok = False
        want_args = [exec_of(a) for a in e["args"]]
        if st["args"] != want_args:
            ctx.violation("%s: positional arguments %r instead of %r" % (key, st["args"], want_args), rec, "args-mismatch")
            ok = False
        if sandboxed:
            ok = judge_view(ctx, case, res, key, e, st, rec, exec_of) and ok
    if sandboxed:
        ok = judge_probes(ctx, case, res, rec) and ok
    if case.get("weak_probe") and res.get("weak_rc") == 0 and (res.get("weak_new_dirs") or res.get("weak_seen_after") != case["defines"]["DW"]):
        ctx.violation("changing only the weak variable DW (%r -> %r) changed the variant: new directories %r, package step run again (DW=%r)" %
                      (case["defines"]["DW"], case["weak_second"], res["weak_new_dirs"], res.get("weak_seen_after")), rec,
                      "weak-variable-changes-variant")
        ok = False
    if case["root"]["fingerprint"]:
        fp = res.get("fp_env")
        if fp is None:
            ctx.violation("the fingerprint script of the root package did not run", rec, "fingerprint-not-run")
            return False
        pkg = exp["root/dist"]["declared"]
        want = dict(hostvis)
        want.update({k: pkg[k] for k in case["root"]["fpVars"] if k in pkg})
        got = strip_internal(fp)
        cwd = got.pop("BOB_CWD", None)
        if cwd is None or not cwd.startswith(os.path.join(res["dir"], ".bob-")):
            ctx.violation("fingerprint script: BOB_CWD=%r is not its temporary directory" % cwd, rec, "fingerprint-cwd")
            ok = False
        want.pop("BOB_CWD", None)
        if got != want:
            diff = {k: (got.get(k), want.get(k)) for k in set(got) | set(want) if got.get(k) != want.get(k)}
            leak = any(k in case["host"] and k not in want for k in got)
            ctx.violation("fingerprint script environment differs from fingerprintVars + whitelist: (seen, declared) %r" % diff, rec,
                          "fingerprint-host-variable-leak" if leak else "fingerprint-env-mismatch")
            ok = False
    return ok


def _exec_path(res, path, st):
    """execution path of a workspace as the REFERRING sandboxed step sees it: the storage -> execution path pairs of its own
    step.spec (/bob/<id>/workspace with stable paths, the workspace path otherwise); only used to name paths"""
    if path.startswith("/invalid/"):
        return path
    d = res["dir"]
    pairs = [tuple(st["spec"]["workspace"])] + [tuple(x) for x in st["spec"].get("depMounts", [])]
    for storage, ex in pairs:
        storage = storage if os.path.isabs(storage) else os.path.join(d, storage)
        ex = ex if os.path.isabs(ex) else os.path.join(d, ex)
        if path == storage or path.startswith(storage + "/"):
            return ex + path[len(storage):]
    return path


def judge_view(ctx, case, res, key, e, st, rec, exec_of):
    """what a sandboxed step could see of the project and where it could write"""
    d = res["dir"]
    pkg, label = key.split("/")
    own = exec_of(e["cwd"])
    allowed = {own} | {exec_of(a) for a in e["args"] if not a.startswith("/invalid/")}
    tooldir = os.path.join(d, "dev", "dist", "toolprov", "1", "workspace")
    if e["paths"]:
        allowed.add(exec_of(tooldir))
    # earlier steps of the own package
    for earlier in {"dist": ("build", "src"), "build": ("src",), "src": ()}[label]:
        allowed.add(exec_of(os.path.join(d, "dev", earlier, pkg, "1", "workspace")))
    if case["sandbox"] in ("yes", "dev", "strict"):
        allowed.add(exec_of(os.path.join(d, "dev", "dist", "sbx", "1", "workspace")))
    ok = True
    seen = [p for p in st.get("ls", []) if p.endswith("/workspace")]
    for p in seen:
        if p not in allowed:
            ctx.violation("%s (sandbox %s): workspace %s is visible but not a declared dependency" % (key, case["sandbox"], p), rec,
                          "sandbox-undeclared-workspace-visible")
            ok = False
    for p in [own] + [exec_of(a) for a in e["args"] if not a.startswith("/invalid/")]:
        if p not in seen:
            ctx.violation("%s (sandbox %s): declared dependency %s is not visible" % (key, case["sandbox"], p), rec, "sandbox-dependency-missing")
            ok = False
    top = [p for p in st.get("ls", []) if os.path.dirname(p) == d]
    if any(os.path.basename(p) in ("recipes", "config.yaml", "default.yaml", "capture.jsonl") for p in top):
        ctx.violation("%s (sandbox %s): project files are visible inside the sandbox: %r" % (key, case["sandbox"], top), rec, "sandbox-project-visible")
        ok = False
    for item in st.get("w", []):
        mode, p = item[0], item[2:]
        if mode == "W" and p not in (own, d, "/tmp"):
            ctx.violation("%s (sandbox %s): %s is writable" % (key, case["sandbox"], p), rec, "sandbox-dependency-writable")
            ok = False
        if mode == "R" and p == own:
            ctx.violation("%s (sandbox %s): own workspace is not writable" % (key, case["sandbox"]), rec, "sandbox-workspace-readonly")
            ok = False
    return ok


def judge_probes(ctx, case, res, rec):
    """nothing a sandboxed step wrote outside its own workspace reached the real project directory: every probe file found on the
    host lies in a workspace and carries the tag ($PWD inside the sandbox) of that workspace's own step"""
    d = res["dir"]
    ok = True
    for f in res.get("probes", []):
        where = os.path.dirname(f)
        rel = os.path.relpath(where, d).split(os.sep)
        st = res["steps"].get("%s/%s" % (rel[2], rel[1])) if len(rel) == 5 and rel[0] == "dev" and rel[4] == "workspace" else None
        if st is None:
            ctx.violation("a sandboxed step created %s in the real project directory" % f, rec, "sandbox-write-escaped")
            ok = False
            continue
        ex = st["spec"]["workspace"][1]
        ex = ex if os.path.isabs(ex) else os.path.join(d, ex)
        if os.path.basename(f) != ".wprobe" + ex.replace("/", "_"):
            ctx.violation("a sandboxed step wrote %s into the workspace of another step" % f, rec, "sandbox-dependency-writable")
            ok = False
    return ok


def own_tag(ws, res):
    return ws.replace("/", "_")


def oracle_projects(ctx):
    if not affordable(ctx, "`bob dev` project runs", 700 if ctx.tier == "quick" else 6000):
        return
    cases = project_cases(ctx)
    limit = max(20, ctx.time_left() - ctx.budget * 0.22)
    for c in cases:
        c["timeout"] = limit
    results = run_projects(ctx, cases)
    for i, (case, res) in enumerate(zip(cases, results)):
        if res.get("rc") not in (0, None) and ctx.time_left() > ctx.budget * 0.3:
            # once more, alone: a failed fork or a transient mount error on a busy machine is not a verdict
            case["timeout"] = max(20, ctx.time_left() - ctx.budget * 0.22)
            results[i] = run_projects(ctx, [case], "proj-retry%d" % i)[0]
            ctx.count("oracle_project", "retried")
    for case, res in zip(cases, results):
        ok = judge_project(ctx, case, res)
        ctx.case(dict(case, kind="project"), sample={"project": case["root"], "sandbox": case["sandbox"]} if case["idx"] == 0 else None)
        ctx.count("oracle_project", "%s:%s" % (case["sandbox"], {True: "ok", False: "violation", None: "skipped"}[ok]))
        ctx.count("project_steps", len(res.get("steps", {})))
        res.pop("out", None)
        PROJECTS.append((case, res))


# ------------------------------------------------------------------ sandboxed steps at the StepSpec level

SBX_SCRIPT = """\
{cat} /proc/self/environ > .dump.env
for a in "$@"; do printf '%s\\0' "$a"; done > .dump.args
shopt -s nullglob dotglob
for d in {proj} {proj}/* {proj}/dev/*/*/*/workspace {proj}/dev/*/*/*/workspace/* /bob/*/workspace /bob/*/workspace/* /mnt/*; do printf '%s\\0' "$d"; done > .dump.ls
for t in "$PWD" {proj} /tmp /etc /usr "$@" {proj}/dev/*/*/*/workspace /bob/*/workspace /mnt/*; do
    if [[ -d "$t" ]] && ( : > "$t/.wprobe" ) 2>/dev/null; then printf 'W %s\\0' "$t"; else printf 'R %s\\0' "$t"; fi
done > .dump.w
true
"""


def gen_sandbox_case(r, idx, mode):
    """a project directory with an own workspace, declared and undeclared neighbours; mode slim | image"""
    ndeps = r.randrange(0, 4)
    nothers = r.randrange(1, 3)
    deps = ["dep%d" % i for i in range(ndeps)]
    others = ["other%d" % i for i in range(nothers)]
    own = r.choice(["own", "o w n", "own's", "öwn"])
    case = {
        "idx": idx, "mode": mode, "own": own, "deps": deps, "others": others,
        "stable": mode == "image" and r.random() < 0.7,
        "env": {r.choice(NAME_POOL): gen_value(r) for _ in range(r.randrange(0, 4))},
        "whitelist": sorted(set(r.sample(["PATH", "TERM", "HOME", "WL1"], r.randrange(0, 4)))),
        "host": {"PATH": "/usr/bin:/bin", "DECOY1": gen_value(r), "WL1": gen_value(r), "TERM": "dumb"},
        "preserve": False,
        "netAccess": r.random() < 0.3,
        "envFile": r.random() < 0.5,
        "user": r.choice(["nobody", "root", "$USER"]),
        "rw_mount": mode == "image" and r.random() < 0.6,
        "ro_mount": mode == "image" and r.random() < 0.6,
        "dup_dep": ndeps > 0 and r.random() < 0.3,
    }
    return case


def run_sandbox_case(arg):
    """(worker) lay out the project, run the step through the real Invoker with the sandbox helper, record the helper argv"""
    case, root, repo = arg
    import asyncio
    import asyncio.base_events as be
    import io
    from bob.languages import StepSpec
    from bob.invoker import Invoker, InvocationMode
    t = tools()
    base = os.path.join(root, "s%d" % case["idx"])
    proj = os.path.join(base, "proj")
    res = {"base": base, "proj": proj}
    saved_env = dict(os.environ)
    saved_cwd = os.getcwd()
    orig = be.BaseEventLoop.subprocess_exec
    captured = []
    try:
        ws = lambda n: os.path.join("dev", "dist", n, "1", "workspace")
        own_ws = os.path.join("dev", "build", case["own"], "1", "workspace")
        os.makedirs(os.path.join(proj, own_ws))
        for n in case["deps"] + case["others"]:
            os.makedirs(os.path.join(proj, ws(n)))
            with open(os.path.join(proj, ws(n), "content-" + n), "w") as f:
                f.write(n)
        with open(os.path.join(proj, "secret.txt"), "w") as f:
            f.write("s")
        os.makedirs(os.path.join(proj, "recipes"))
        image = os.path.join("dev", "dist", "image", "1", "workspace")
        ex = (lambda n, p: "/bob/%s/workspace" % n) if case["stable"] else (lambda n, p: p)
        dep_mounts = [[ws(n), ex(n, ws(n))] for n in case["deps"]]
        if case["dup_dep"]:
            dep_mounts.append(list(dep_mounts[0]))
        sandbox = None
        hostdirs = {}
        if case["mode"] == "image":
            os.makedirs(os.path.join(proj, image, "imgdir"))
            with open(os.path.join(proj, image, "image-canary"), "w") as f:
                f.write("i")
            mounts = [["/usr", "/usr", []], ["/bin", "/bin", ["nofail"]], ["/lib", "/lib", ["nofail"]], ["/lib64", "/lib64", ["nofail"]],
                      ["/lib32", "/lib32", ["nofail"]], ["/nonexistent-c13", "/nonexistent-c13", ["nofail"]],
                      ["/etc", "/etc", ["nolocal"]]]
            for kind, opts in (("rw_mount", ["rw"]), ("ro_mount", [])):
                if case[kind]:
                    hd = os.path.join(base, "host-" + kind)
                    os.makedirs(hd)
                    hostdirs[kind] = hd
                    mounts.append([hd, "/mnt/" + kind, opts])
            sandbox = {"root": image, "paths": ["/usr/bin", "/bin"], "hostMounts": mounts, "user": case["user"]}
            dep_mounts.append([image, ex("image", image)])
        sc = dict(case, paths=[], libraryPaths=[], ws=own_ws, wsExec=ex("own", own_ws), args=[ex(n, ws(n)) for n in case["deps"]],
                  allPaths=[], depPaths=[], toolPaths=[])
        d = spec_dict(sc, os.path.join(proj, "dev", "build", case["own"], "1"), SBX_SCRIPT.format(cat=t["cat"], proj=proj),
                      slim=case["mode"] == "slim", sandbox=sandbox, dep_mounts=dep_mounts,
                      env_file=os.path.join("dev", "build", case["own"], "1", "env") if case["envFile"] else None)
        d["netAccess"] = case["netAccess"]
        res["spec"] = d
        os.chdir(proj)

        async def recording(self, protocol_factory, program, *args, **kwargs):
            captured.append({"argv": [program] + list(args), "env": dict(kwargs.get("env") or {}), "cwd": kwargs.get("cwd")})
            return await orig(self, protocol_factory, program, *args, **kwargs)
        be.BaseEventLoop.subprocess_exec = recording
        spec = StepSpec.fromFile(io.StringIO(json.dumps(d)))
        res["rootEntries"] = os.listdir("/") if case["mode"] == "slim" else os.listdir(os.path.join(proj, image))
        os.environ.clear()
        os.environ.update(case["host"])
        inv = Invoker(spec, False, True, False, False, False, True)
        loop = asyncio.new_event_loop()
        try:
            res["ret"] = loop.run_until_complete(inv.executeStep(InvocationMode.CALL, False))
        finally:
            loop.close()
        if res["ret"] != 0:
            res["stdio"] = inv.getStdio()[-600:]
        res["captured"] = captured
        wsdir = os.path.join(proj, own_ws)
        try:
            from gen import c13proj
            res["env"] = c13proj.parse_environ(open(os.path.join(wsdir, ".dump.env"), "rb").read())
            raw = open(os.path.join(wsdir, ".dump.args"), "rb").read()
            res["args"] = [_decode(x) for x in raw.split(b"\0")[:-1]] if raw else []
            res["ls"] = [_decode(x) for x in open(os.path.join(wsdir, ".dump.ls"), "rb").read().split(b"\0")[:-1]]
            res["w"] = [_decode(x) for x in open(os.path.join(wsdir, ".dump.w"), "rb").read().split(b"\0")[:-1]]
        except OSError as e:
            res["dump_error"] = str(e)
        import glob
        res["probes"] = sorted(glob.glob(os.path.join(proj, ".wprobe")) + glob.glob(os.path.join(proj, "dev", "*", "*", "*", "workspace", ".wprobe")) +
                               glob.glob(os.path.join(base, "host-*", ".wprobe")))
        res["hostdirs"] = hostdirs
        res["exec"] = {n: ex(n, os.path.join(proj, ws(n))) for n in case["deps"] + case["others"]}
        res["own_exec"] = ex("own", os.path.join(proj, own_ws))
        res["own_storage"] = os.path.join(proj, own_ws)
    except Exception as e:  # noqa
        res["exception"] = "%s: %s" % (type(e).__name__, e)
    finally:
        be.BaseEventLoop.subprocess_exec = orig
        os.environ.clear()
        os.environ.update(saved_env)
        os.chdir(saved_cwd)
    return res


def judge_sandbox(ctx, case, res):
    rec = {"kind": "sandbox", "case": case}
    if "exception" in res:
        ctx.violation("sandboxed step raised " + res["exception"], rec, "sandbox-exception")
        return False
    if res.get("ret") != 0 or "dump_error" in res:
        ctx.violation("sandboxed step failed (exit %r): %s %s" % (res.get("ret"), res.get("stdio"), res.get("dump_error")), rec, "sandbox-step-failed")
        return False
    proj = res["proj"]
    ok = True
    own = res["own_exec"]
    declared = {res["exec"][n] for n in case["deps"]}
    visible_ws = {p for p in res["ls"] if p.endswith("/workspace")}
    for p in sorted(visible_ws):
        if p != own and p not in declared and not (case["mode"] == "image" and p.endswith("/image/workspace") or p == os.path.join(proj, "dev/dist/image/1/workspace")):
            ctx.violation("workspace %s is visible in the %s sandbox but not a declared dependency" % (p, case["mode"]), rec,
                          "sandbox-undeclared-workspace-visible")
            ok = False
    for p in sorted(declared | {own}):
        if p not in visible_ws:
            ctx.violation("declared dependency %s is not visible in the %s sandbox" % (p, case["mode"]), rec, "sandbox-dependency-missing")
            ok = False
    for n in case["deps"]:
        if os.path.join(res["exec"][n], "content-" + n) not in res["ls"]:
            ctx.violation("content of declared dependency %s is not visible" % n, rec, "sandbox-dependency-missing")
            ok = False
    for n in case["others"]:
        if any(("content-" + n) in p for p in res["ls"]):
            ctx.violation("content of the undeclared workspace %s is visible" % n, rec, "sandbox-undeclared-workspace-visible")
            ok = False
    if any(os.path.basename(p) in ("secret.txt", "recipes") and os.path.dirname(p) == proj for p in res["ls"]):
        ctx.violation("files of the project directory are visible inside the %s sandbox" % case["mode"], rec, "sandbox-project-visible")
        ok = False
    # the project directory inside a sandbox is private: the whiteout (slim) or plain directories of the sandbox root (image)
    writable_ok = {own, "/tmp", proj}
    if case.get("rw_mount"):
        writable_ok.add("/mnt/rw_mount")
    for item in res["w"]:
        mode, p = item[0], item[2:]
        if mode == "W" and p not in writable_ok:
            ctx.violation("%s is writable inside the %s sandbox" % (p, case["mode"]), rec,
                          "sandbox-dependency-writable" if p in declared else "sandbox-writable-outside-workspace")
            ok = False
        if mode == "R" and p == own:
            ctx.violation("the step's own workspace is read-only inside the sandbox", rec, "sandbox-workspace-readonly")
            ok = False
    allowed_probes = {os.path.join(res["own_storage"], ".wprobe")}
    if case.get("rw_mount") and "rw_mount" in res.get("hostdirs", {}):
        allowed_probes.add(os.path.join(res["hostdirs"]["rw_mount"], ".wprobe"))
    for f in res["probes"]:
        if f not in allowed_probes:
            ctx.violation("a write inside the sandbox reached %s on the host" % f, rec, "sandbox-write-escaped")
            ok = False
    # environment: the same rule as without sandbox (HOME/PWD are the helper's business)
    got = strip_internal(res["env"])
    got.pop("HOME", None)
    hostvis = {k: v for k, v in case["host"].items() if k in case["whitelist"] and k != "HOME"}
    want = dict(hostvis)
    want.update(case["env"])
    base_path = "/usr/bin:/bin" if case["mode"] == "image" else (hostvis["PATH"] if "PATH" in hostvis else tools()["default_path"])
    want["PATH"] = base_path
    want["LD_LIBRARY_PATH"] = ""
    want["BOB_CWD"] = own
    want.pop("HOME", None)
    if got != want:
        diff = {k: (got.get(k), want.get(k)) for k in set(got) | set(want) if got.get(k) != want.get(k)}
        leak = any(k in case["host"] and k not in want for k in got)
        ctx.violation("environment inside the %s sandbox differs from the declaration: (seen, declared) %r" % (case["mode"], diff), rec,
                      "host-variable-leak" if leak else "env-value-mismatch")
        ok = False
    if res["args"] != [res["exec"][n] for n in case["deps"]]:
        ctx.violation("arguments inside the sandbox %r" % res["args"], rec, "args-mismatch")
        ok = False
    return ok


def outside_tmp_root(ctx, tag):
    """A slim sandbox replaces /tmp by a private empty directory, so a project below /tmp is invisible in it with or without the
    whiteout of the project directory.  To exercise the whiteout the sandboxed projects live outside /tmp (removed by the caller);
    falls back to ctx.tmp when no other writable scratch directory exists."""
    import tempfile
    for base in (os.environ.get("BOB_VERIF_TMP_OUTSIDE"), "/var/tmp", "/dev/shm"):
        if base and os.path.isdir(base) and os.access(base, os.W_OK) and not os.path.realpath(base).startswith("/tmp"):
            try:
                return tempfile.mkdtemp(prefix="bobverif-C13-%s-%d-" % (tag, os.getpid()), dir=base), True
            except OSError:
                pass
    root = os.path.join(ctx.tmp, tag)
    os.makedirs(root, exist_ok=True)
    ctx.skip("whiteout of the project directory (no writable scratch directory outside /tmp)")
    return root, False


def sandbox_cases(ctx):
    r = ctx.subrng("sandbox")
    n = ctx.scale(24, 600)
    return [gen_sandbox_case(r, i, "slim" if i % 2 == 0 else "image") for i in range(n)]


# ------------------------------------------------------------------ fingerprint scripts through `bob _invoke <spec> fingerprint`

def run_fingerprint_case(arg):
    """(worker) `bob _invoke spec fingerprint` in a child whose stdin is /dev/null, a pipe or a socket; HOME has a .bashrc"""
    case, root, repo, python = arg
    from gen import c13proj
    base = os.path.join(root, "f%d" % case["idx"])
    home = os.path.join(base, "home")
    os.makedirs(home, exist_ok=True)
    res = {"base": base}
    try:
        with open(os.path.join(home, ".bashrc"), "w") as f:
            f.write("export LEAKED_FROM_BASHRC=1\n")
        from bob.languages import BashLanguage
        script = BashLanguage.mangleFingerprints([tools()["cat"] + " /proc/self/environ\n"], case["fpEnv"])
        c = dict(case, paths=[], libraryPaths=[], ws="ws", args=[], allPaths=[], depPaths=[], toolPaths=[], env=case["stepEnv"])
        d = spec_dict(c, base, "")
        d["fingerprintScript"] = script
        res["script"] = script
        with open(os.path.join(base, "step.spec"), "w") as f:
            json.dump(d, f)
        env = dict(case["host"])
        env["HOME"] = home
        env["C13_STDIN"] = case["stdin"]
        capture = os.path.join(base, "capture.jsonl")
        p = subprocess.run([python, c13proj.CHILD, repo, base, json.dumps(["_invoke", "step.spec", "fingerprint"]), capture], env=env,
                           stdout=subprocess.PIPE, stderr=subprocess.PIPE, stdin=subprocess.DEVNULL, timeout=300)
        try:
            res["capture"] = [json.loads(l) for l in open(capture, encoding="utf-8", errors="surrogateescape")]
        except OSError:
            res["capture"] = []
        res["rc"] = p.returncode
        res["err"] = p.stderr.decode("utf-8", "replace")[-500:]
        res["env"] = c13proj.parse_environ(p.stdout)
        res["home"] = home
    except subprocess.TimeoutExpired:
        res["timeout"] = True
    except Exception as e:  # noqa
        res["exception"] = "%s: %s" % (type(e).__name__, e)
    return res


def oracle_fingerprint(ctx):
    if not affordable(ctx, "fingerprint scripts through `bob _invoke`", 150 if ctx.tier == "quick" else 4000):
        return
    r = ctx.subrng("fingerprint")
    cases = []
    for i in range(ctx.scale(9, 300)):
        step_env = {r.choice(NAME_POOL[:9] + ["E1", "E2"]): gen_value(r) for _ in range(r.randrange(0, 5))}
        fp_vars = r.sample(sorted(step_env) + ["U1"], r.randrange(0, len(step_env) + 1))
        host = {"PATH": "/usr/bin:/bin", "LC_ALL": "C.UTF-8", "DECOY1": gen_value(r), "WL1": gen_value(r), "TERM": gen_value(r)}
        cases.append({"idx": i, "stepEnv": step_env, "fpVars": fp_vars, "fpEnv": {k: v for k, v in step_env.items() if k in fp_vars},
                      "whitelist": sorted(r.sample(["PATH", "HOME", "TERM", "WL1", "USER"], r.randrange(1, 5)) + ["HOME"]),
                      "host": host, "preserve": False, "stdin": ["null", "pipe", "socket"][i % 3]})
    root = os.path.join(ctx.tmp, "fp")
    os.makedirs(root, exist_ok=True)
    results = ctx.parallel(run_fingerprint_case, [(c, root, ctx.repo, sys.executable) for c in cases])
    for case, res in zip(cases, results):
        rec = {"kind": "fingerprint", "case": case}
        ctx.case(dict(case, kind="fingerprint"))
        if res.get("timeout") or "exception" in res:
            ctx.skip("a `bob _invoke ... fingerprint` child did not finish")
            continue
        if res.get("rc") != 0:
            ctx.violation("`bob _invoke step.spec fingerprint` failed: " + res.get("err", ""), rec, "fingerprint-invoke-failed")
            continue
        got = strip_internal(res["env"])
        cwd = got.pop("BOB_CWD", "")
        want = {k: v for k, v in case["host"].items() if k in case["whitelist"]}
        want["HOME"] = res["home"]
        want.update(case["fpEnv"])
        ok = True
        if "LEAKED_FROM_BASHRC" in got:
            ctx.violation("the fingerprint script sourced ~/.bashrc (Bob's stdin: %s): LEAKED_FROM_BASHRC is set although it is neither in "
                          "fingerprintVars nor whitelisted" % case["stdin"], rec, "fingerprint-sources-bashrc-on-%s-stdin" % case["stdin"])
            got.pop("LEAKED_FROM_BASHRC")
            ok = False
        if not cwd.startswith(os.path.join(res["base"], ".bob-")):
            ctx.violation("fingerprint script: BOB_CWD=%r is not its temporary directory" % cwd, rec, "fingerprint-cwd")
            ok = False
        if got != want:
            diff = {k: (got.get(k), want.get(k)) for k in set(got) | set(want) if got.get(k) != want.get(k)}
            leak = any(k in case["host"] and k not in want for k in got)
            ctx.violation("fingerprint script environment differs from fingerprintVars + whitelist: (seen, declared) %r" % diff, rec,
                          "fingerprint-host-variable-leak" if leak else "fingerprint-env-mismatch")
            ok = False
        ctx.count("oracle_fingerprint", "%s:%s" % (case["stdin"], "ok" if ok else "violation"))
        FINGERPRINTS.append((case, res))


FINGERPRINTS = []


def oracle_sandbox(ctx):
    if not sandbox_available():
        ctx.skip("sandboxed steps: bob-namespace-sandbox -C fails here (no user namespaces); only the helper argv is compared with the model")
        return
    if not affordable(ctx, "sandboxed steps", 120 if ctx.tier == "quick" else 3000):
        return
    cases = sandbox_cases(ctx)
    root, outside = outside_tmp_root(ctx, "sbx")
    try:
        results = ctx.parallel(run_sandbox_case, [(c, root, ctx.repo) for c in cases])
        for i, (case, res) in enumerate(zip(cases, results)):
            if "exception" in res or res.get("ret") != 0 or "dump_error" in res:
                # other users of this machine create and delete entries of / while the slim sandbox mounts them: run once more, alone
                shutil.rmtree(res.get("base", os.path.join(root, "s%d" % case["idx"])), ignore_errors=True)
                res = results[i] = run_sandbox_case((case, root, ctx.repo))
                ctx.count("oracle_sandbox", "retried")
        for case, res in zip(cases, results):
            ok = judge_sandbox(ctx, case, res)
            ctx.case(dict(case, kind="sandbox"))
            ctx.count("oracle_sandbox", "%s:%s" % (case["mode"], "ok" if ok else "violation"))
            SANDBOXED.append((case, res))
    finally:
        if outside:
            shutil.rmtree(root, ignore_errors=True)


# ------------------------------------------------------------------ correspondence with the Lean model

def lean_step_request(case, res):
    return {"op": "step",
            "spec": {"env": case["env"], "paths": case["paths"], "libraryPaths": case["libraryPaths"], "cwd": case.get("wsExec", case["ws"]),
                     "args": case["args"], "allPaths": case["allPaths"], "depPaths": case["depPaths"], "toolPaths": case["toolPaths"]},
            "pycwd": res["pycwd"], "keepEnv": False, "trace": case["trace"], "bash": "bash",
            "execScript": os.path.join(res["base"], "script"),
            "preserve": case["preserve"], "whitelist": case["whitelist"], "host": case["host"], "extra": {},
            "defaults": {"PATH": tools()["default_path"]}}


def compare_step(ctx, case, res, m):
    rel = "real bash on BashLanguage.setupCall's script == Model.ShellEnv (formatProlog, evalScript, setupCallArgs)"
    if "exception" in res or res.get("ret") != 0 or "dump_error" in res:
        if m.get("err") is None:
            ctx.disagree(rel, case, {"exception": res.get("exception"), "ret": res.get("ret")}, "model evaluates the prolog without error")
        else:
            ctx.count("corr_spec", "both-fail")
        return
    if m.get("err") is not None:
        ctx.disagree(rel, case, "bash ran the prolog", {"err": m["err"]})
        return
    head = m["prolog"] + "\n\n# Setup\n"
    if res.get("script") is None or not res["script"].startswith(head):
        ctx.disagree("script file text starts with Model.formatProlog", case, (res.get("script") or "")[:len(head) + 40], head)
        return
    if res["argv"] != m["argv"]:
        ctx.disagree("argv of BashLanguage.setupCall == Model.setupCallArgs", case, res["argv"], m["argv"])
        return
    if res["args"] != m["positional"]:
        ctx.disagree("\"$@\" seen by the script == Model.positionalOf", case, res["args"], m["positional"])
        return
    got_env = strip_internal(res["env"])
    if got_env != strip_internal(m["env"]):
        diff = {k: (got_env.get(k), m["env"].get(k)) for k in set(got_env) | set(m["env"]) if got_env.get(k) != m["env"].get(k) and k not in BASH_INTERNAL}
        ctx.disagree("environment seen by the script == Model.scriptEnv", case, diff, "see pairs (impl, model)")
        return
    if res["arrays"] != m["arrays"]:
        ctx.disagree("path arrays seen by the script == Model arrays", case, res["arrays"], m["arrays"])
        return
    ctx.count("corr_spec", "agree")


def correspond(ctx):
    tools()
    import time
    t_c = time.time()
    pairs = list(EXECUTED)
    if not pairs:
        spec_stream(ctx, ctx.scale(1500, 80000), "spec", False, pairs, ctx.budget * 0.2)
    chunk = 2000
    done = 0
    for i in range(0, len(pairs), chunk):
        part = pairs[i:i + chunk]
        reqs = [lean_step_request(c, r) if "pycwd" in r else {"op": "quote", "s": ""} for c, r in part]
        replies = ctx.lean(DRIVER, reqs)
        for (case, res), m in zip(part, replies):
            ctx.case(dict(case, corr=True), nontrivial=nontrivial(case))
            compare_step(ctx, case, res, m)
            done += 1
    ctx.trace_validated(done)
    import time
    ctx.notes["t_corr_spec_s"] = round(time.time() - t_c, 1)
    t = time.time()
    correspond_projects(ctx)
    correspond_sandbox(ctx)
    correspond_fingerprint(ctx)
    ctx.notes["t_corr_projects_sandbox_s"] = round(time.time() - t, 1)
    t = time.time()
    correspond_pure(ctx)
    ctx.notes["t_corr_pure_s"] = round(time.time() - t, 1)


def _dep(pkg, label, valid, st):
    storage = "dev/%s/%s/1/workspace" % (label, pkg)
    return {"name": pkg, "valid": valid, "isCheckout": label == "src", "storage": storage, "exec": _exec_rel(st, storage)}


def _exec_rel(st, storage):
    for s_, e_ in [tuple(st["spec"]["workspace"])] + [tuple(x) for x in st["spec"].get("depMounts", [])]:
        if s_ == storage:
            return e_
    return storage


def project_desc(case, key, st):
    """StepDesc of one executed step of a generated project, from the declaration"""
    pkg, label = key.split("/")
    spec = {"root": case["root"], "lib1": case["lib"], "lib2": case["lib"]}.get(pkg, {"has_checkout": False})
    has_src = spec.get("has_checkout", False)
    has_build = pkg != "toolprov"
    src = _dep(pkg, "src", has_src, st)
    build = _dep(pkg, "build", has_build, st)
    if label == "src":
        args, chain = [], []
    elif label == "build":
        args = [src] + ([_dep("lib1", "dist", True, st), _dep("lib2", "dist", True, st)] if pkg == "root" else [])
        chain = [src]
    else:
        args, chain = [build], [build, src]
    use_tool = pkg == "root" and ((label == "build" and spec["tool_build"]) or (label == "dist" and (spec["tool_build"] or spec["tool_package"])))
    tools_ = [{"name": "mytool", "step": _dep("toolprov", "dist", True, st), "path": "bin", "libs": case["tool_libs"]}] if use_tool else []
    fat = case["sandbox"] in ("yes", "dev", "strict")
    return {"env": st["spec"]["env"], "valid": True, "isCheckout": label == "src", "args": args, "tools": tools_,
            "sandbox": _dep("sbx", "dist", True, st) if fat else None, "chain": chain}


def correspond_projects(ctx):
    from gen import c13proj
    reqs, checks = [], []
    for case, res in PROJECTS:
        if res.get("rc") != 0 or "steps" not in res:
            continue
        exp = c13proj.expected_steps(case, res["dir"], tools()["default_path"], "linux")
        wl = sorted(c13proj.whitelist_of(case))
        host = dict(case["host"])
        host["HOME"] = res["home"]
        cfg = [{"adds": case["wl_add"], "removes": case["wl_remove"]}]
        any_spec = next(iter(res["steps"].values()))["spec"]
        reqs.append({"op": "whitelist", "cfgs": cfg, "cli": case["cli_wl"]})
        checks.append(("RecipeSet.envWhiteList + -e == Model.whiteListFold", {"project": case["idx"], "cfgs": cfg, "cli": case["cli_wl"]},
                       sorted(any_spec["envWhiteList"]), lambda m: sorted(set(m["ok"]))))
        for key, e in sorted(exp.items()):
            st = res["steps"].get(key)
            if st is None or "env" not in st:
                continue
            sp = st["spec"]
            pkg, label = key.split("/")
            # (1) tail of Recipe.prepare: the declared variables that are defined
            full = dict(case["default_env"])
            full.update(case["defines"])
            full["BOB_HOST_PLATFORM"] = "linux"
            full.update(case["root"]["environment"])
            if pkg == "root":
                full.update(case["root"]["private"])
            full["BOB_RECIPE_NAME"] = full["BOB_PACKAGE_NAME"] = pkg
            if pkg in ("root", "lib1", "lib2"):
                allv, strong = c13proj.cumulative(({"root": case["root"], "lib1": case["lib"], "lib2": case["lib"]}[pkg])["vars"])
                reqs.append({"op": "prune", "full": full, "strong": sorted(strong[label]), "weak": sorted(allv[label] - strong[label])})
                checks.append(("step.spec env == Model.stepEnvOf(declared environment)", {"project": case["idx"], "step": key}, sp["env"],
                               lambda m: m["env"]))
            # (2) StepSpec.fromStep
            reqs.append({"op": "fromstep", "desc": project_desc(case, key, st), "cwd": sp["workspace"][1]})
            want = {"spec": {k: (sp[k] if k != "cwd" else sp["workspace"][1]) for k in
                             ("env", "paths", "libraryPaths", "cwd", "args", "allPaths", "depPaths", "toolPaths")},
                    "depMounts": sp["depMounts"]}
            checks.append(("step.spec written by bob dev == Model.specOfStep / StepDesc.depMounts", {"project": case["idx"], "step": key, "sandbox": case["sandbox"]},
                           want, lambda m: m))
            # (3) the process environment handed to bash / the helper, and what the script saw
            sandboxed = case["sandbox"] != "no"
            if not sandboxed:
                reqs.append({"op": "step", "spec": {"env": sp["env"], "paths": sp["paths"], "libraryPaths": sp["libraryPaths"],
                                                    "cwd": sp["workspace"][1], "args": sp["args"], "allPaths": sp["allPaths"],
                                                    "depPaths": sp["depPaths"], "toolPaths": sp["toolPaths"]},
                             "pycwd": res["dir"], "keepEnv": False, "trace": False, "bash": "bash", "execScript": sp["scriptHint"],
                             "preserve": case["preserve"], "whitelist": sp["envWhiteList"], "host": host, "extra": {},
                             "defaults": {"PATH": tools()["default_path"]}})
                cap = [c for c in res.get("capture", []) if c["argv"][:2] == ["bash", "--"] and
                       os.path.normpath(c["argv"][2]) == os.path.normpath(os.path.join(res["dir"], sp["scriptHint"]))]
                checks.append(("bob dev: script environment and Invoker process environment == Model", {"project": case["idx"], "step": key},
                               {"env": strip_internal(st["env"]), "procEnv": cap[-1]["env"] if cap else None, "positional": st["args"]},
                               lambda m: {"env": strip_internal(m["env"] or {}), "procEnv": m["procEnv"], "positional": m["positional"]}))
        if case["root"]["fingerprint"] and res.get("fp_env") is not None:
            cap = [c for c in res.get("capture", []) if c["argv"][0] == "bash" and "-c" in c["argv"][:-1]]
            if cap:
                pkg_env = res["steps"]["root/dist"]["spec"]["env"] if "root/dist" in res["steps"] else {}
                fp_proc = cap[-1]["env"]
                reqs.append({"op": "fingerprint", "stepEnv": pkg_env, "fpVars": case["root"]["fpVars"], "procEnv": fp_proc})
                script = cap[-1]["argv"][-1]
                got_env = strip_internal(res["fp_env"])
                checks.append(("fingerprint script: argv, preamble text and environment == Model (setupFingerprintArgs, fingerprintPreamble)",
                               {"project": case["idx"]},
                               {"env": got_env, "head": True, "argv": cap[-1]["argv"][:-1]},
                               lambda m, script=script: {"env": strip_internal(m["env"] or {}), "head": script.startswith(m["preamble"] + "\n"),
                                                         "argv": m["argvHead"]}))
    if not reqs:
        return
    replies = ctx.lean(DRIVER, reqs)
    for (rel, case, want, view), m in zip(checks, replies):
        ctx.case((rel, case))
        got = view(m)
        if got != want:
            ctx.disagree(rel, case, want, got)
        else:
            ctx.count("corr_project", rel.split(" ==")[0][:40])
    ctx.trace_validated(len(reqs))


def correspond_fingerprint(ctx):
    """mangleFingerprints text and the environment `bob _invoke spec fingerprint` gave the script == model"""
    reqs, checks = [], []
    for case, res in FINGERPRINTS:
        if "env" not in res or "script" not in res:
            continue
        got = strip_internal(res["env"])
        got.pop("LEAKED_FROM_BASHRC", None)      # reported by the oracle (bash reads ~/.bashrc when stdin is a socket)
        proc = {k: v for k, v in case["host"].items() if k in case["whitelist"]}
        proc["HOME"] = res["home"]
        proc["BOB_CWD"] = got.get("BOB_CWD", "")
        reqs.append({"op": "fingerprint", "stepEnv": case["stepEnv"], "fpVars": case["fpVars"], "procEnv": proc, "trace": False,
                     "stdinSocket": case["stdin"] == "socket"})
        argv = [c["argv"] for c in res.get("capture", []) if "-c" in c["argv"][:-1]]
        checks.append((case, res["script"], got, argv[-1][:-1] if argv else None, "LEAKED_FROM_BASHRC" in res["env"]))
    if not reqs:
        return
    for (case, script, got, argv, leaked), m in zip(checks, ctx.lean(DRIVER, reqs)):
        ctx.case(("fingerprint-corr", case))
        if argv != m["argvHead"] or leaked != m["readsRc"]:
            ctx.disagree("argv of BashLanguage.setupFingerprint == Model.setupFingerprintArgs (and bash read ~/.bashrc iff Model.bashReadsRc)",
                         case, {"argv": argv, "bashrc_sourced": leaked}, {"argv": m["argvHead"], "bashrc_sourced": m["readsRc"]})
        elif m.get("err") is not None or not script.startswith(m["preamble"] + "\n"):
            ctx.disagree("BashLanguage.mangleFingerprints text starts with Model.fingerprintPreamble", case, script[:300], m.get("preamble", m))
        elif strip_internal(m["env"]) != got:
            ctx.disagree("environment of the fingerprint script (bob _invoke) == Model (fingerprintEnvOf, evalScript)", case, got, m["env"])
        else:
            ctx.count("corr_fingerprint", case["stdin"])
    ctx.trace_validated(len(reqs))


def correspond_sandbox(ctx):
    reqs, checks = [], []
    for case, res in SANDBOXED:
        cap = [c for c in res.get("captured", []) if os.path.basename(c["argv"][0]) == "bob-namespace-sandbox"]
        if not cap or "spec" not in res:
            continue
        argv = cap[-1]["argv"]
        d = res["spec"]
        tmp_dir = argv[2]
        if case["mode"] == "slim":
            tmp_dir = os.path.dirname(tmp_dir)
        sep = argv.index("--")
        req = {"op": "sandbox", "mode": "slim" if case["mode"] == "slim" else "fat", "pycwd": res["proj"], "tmpDir": tmp_dir,
               "rootEntries": res["rootEntries"], "realScript": d["scriptHint"], "execScript": "/.script" if case["mode"] == "image" else d["scriptHint"],
               "netAccess": d["netAccess"], "envFile": d["envFile"], "wsStorage": d["workspace"][0], "wsExec": d["workspace"][1],
               "depMounts": d["depMounts"], "callArgs": argv[sep + 1:]}
        if case["mode"] == "image":
            sb = d["sandbox"]
            req.update({"sandboxRoot": sb["root"], "isJenkins": False, "user": sb["user"],
                        "hostMounts": [{"host": h, "sandbox": s_, "options": o} for h, s_, o in sb["hostMounts"]],
                        "existing": [h for h, _, _ in sb["hostMounts"] if os.path.exists(h)]})
        reqs.append(req)
        checks.append((case, argv))
    if not reqs:
        return
    for (case, argv), m in zip(checks, ctx.lean(DRIVER, reqs)):
        ctx.case(("sandbox-argv", case))
        if m["argv"] != argv[1:]:
            ctx.disagree("helper argv built by Invoker.executeStep == Model (slimGroups/fatGroups/stepGroups)", case, argv[1:], m["argv"])
        elif m["parsed"] is None or m["parsed"]["mounts"] != m["mounts"]:
            ctx.disagree("Model.parseHelper(argv).mounts == the groups' mounts", case, m.get("parsed"), m["mounts"])
        else:
            ctx.count("corr_sandbox", case["mode"])
    ctx.trace_validated(len(reqs))


def correspond_pure(ctx):
    """quote / word / abspath / prune / whitelist / fingerprint preamble against the real functions"""
    import shlex
    r = ctx.subrng("pure")
    t = tools()
    reqs, checks = [], []
    for i in range(ctx.scale(1500, 60000)):
        s = gen_value(r, 16)
        reqs.append({"op": "quote", "s": s})
        checks.append(("shlex.quote == Model.shlexQuote", {"s": s}, shlex.quote(s)))
    from bob.stringparser import Env
    for i in range(ctx.scale(600, 20000)):
        full = {r.choice(NAME_POOL): gen_value(r) for _ in range(r.randrange(0, 7))}
        strong = r.sample(NAME_POOL, r.randrange(0, 5))
        weak = r.sample(NAME_POOL, r.randrange(0, 4)) if r.random() < 0.6 else []
        e = Env(full)
        dig = e.prune(set(strong)).detach()
        env = e.prune(set(strong) | set(weak)).detach() if weak else dig
        reqs.append({"op": "prune", "full": full, "strong": strong, "weak": weak})
        checks.append(("Env.prune (tail of Recipe.prepare) == Model.stepEnvOf/digestEnvOf", {"full": full, "strong": strong, "weak": weak},
                       {"env": env, "digest": dig}))
    for i in range(ctx.scale(300, 10000)):
        cwd = gen_path(r, True)
        cwd = os.path.normpath(cwd)
        p = gen_path(r)
        reqs.append({"op": "abspath", "cwd": cwd, "p": p})
        checks.append(("os.path.abspath == Model.posixAbs", {"cwd": cwd, "p": p}, os.path.normpath(os.path.join(cwd, p))))
    replies = ctx.lean(DRIVER, reqs)
    for (rel, case, want), m in zip(checks, replies):
        ctx.case((rel, case))
        got = m.get("ok", m)
        if got != want:
            ctx.disagree(rel, case, want, got)
    ctx.trace_validated(len(reqs))
    # words that are NOT produced by shlex.quote: the model's bash fragment against the real bash
    words = []
    if ctx.time_left() < 15:
        ctx.skip("bash word fragment against the real bash (time)")
        return
    n_words = min(ctx.scale(400, 20000), int(max(ctx.time_left() - 10, 0) / max(SPEED["per_case"], 0.001)))
    if n_words < ctx.scale(400, 20000):
        ctx.skip("bash word fragment against the real bash: %d of %d words (time)" % (n_words, ctx.scale(400, 20000)))
    for i in range(n_words):
        parts = []
        for _ in range(r.randrange(1, 4)):
            k = r.random()
            v = gen_value(r, 5)
            if k < 0.35:
                parts.append(shlex.quote(v))
            elif k < 0.5:
                parts.append('"' + "".join("\\" + c if c in '$`"\\' else c for c in v) + '"')
            elif k < 0.65:
                parts.append("".join("\\" + c for c in v if c != "\n"))
            elif k < 0.75:
                parts.append(r.choice([":", "=", "/", "@", "-", "+", ",", "."]))
            elif k < 0.9:
                parts.append("".join(c for c in v if c.isalnum()))
            else:
                parts.append(v)          # raw: mostly outside the fragment (model must say so, never a wrong value)
        w = "".join(parts) + (":$PATH" if r.random() < 0.2 else "")
        words.append(w)
    # the model first: only words it gives a value to are run by the real bash (a raw word outside the fragment may redirect,
    # substitute commands, ...), in an empty scratch directory
    replies = ctx.lean(DRIVER, [{"op": "word", "text": w, "env": {"PATH": "/p:/q"}} for w in words])
    scratch = os.path.join(ctx.tmp, "words")
    os.makedirs(scratch, exist_ok=True)
    accepted = [w for w, m in zip(words, replies) if "ok" in m]
    outs = dict(zip(accepted, ctx.parallel(_bash_word, [(w, t["bash"], t["cat"], scratch) for w in accepted])))
    for w, m in zip(words, replies):
        ctx.case(("word", w))
        if "ok" in m:
            ctx.count("corr_word", "model-value")
            if outs[w] != m["ok"]:
                ctx.disagree("real bash `export V=<word>` == Model.bashWord", {"word": w}, outs[w], m["ok"])
        else:
            ctx.count("corr_word", "outside-fragment:" + m["err"])
    ctx.trace_validated(len(accepted))


def _bash_word(arg):
    w, bash, cat, scratch = arg
    script = "export V=%s\n%s /proc/self/environ\n" % (w, cat)
    try:
        p = subprocess.run([bash, "-c", script], env={"PATH": "/p:/q"}, stdout=subprocess.PIPE, stderr=subprocess.DEVNULL,
                           stdin=subprocess.DEVNULL, timeout=60, cwd=scratch)
    except Exception:  # noqa
        return None
    if p.returncode != 0:
        return None
    for item in p.stdout.split(b"\0"):
        if item.startswith(b"V="):
            return _decode(item[2:])
    return None


# ------------------------------------------------------------------ replay

def replay(ctx, case):
    k = case.get("kind")
    tools()
    if k == "spec":
        c = case["case"]
        res = run_specs(ctx, [c], "replay")[0]
        judge_spec(ctx, c, res)
    elif k == "project":
        c = case["case"]
        c["timeout"] = 900
        try:
            res = run_projects(ctx, [c], "replay")[0]
            judge_project(ctx, c, res)
        finally:
            cleanup_outside()
    elif k == "fingerprint":
        c = case["case"]
        root = os.path.join(ctx.tmp, "replay")
        os.makedirs(root, exist_ok=True)
        res = run_fingerprint_case((c, root, ctx.repo, sys.executable))
        got = res.get("env", {})
        if "LEAKED_FROM_BASHRC" in got:
            ctx.violation("the fingerprint script sourced ~/.bashrc", case, "fingerprint-sources-bashrc-on-%s-stdin" % c["stdin"])
        want = {k: v for k, v in c["host"].items() if k in c["whitelist"]}
        want.update(c["fpEnv"])
        extra = {k: v for k, v in strip_internal(got).items() if k not in want and k not in ("HOME", "BOB_CWD", "LEAKED_FROM_BASHRC")}
        missing = {k: v for k, v in want.items() if got.get(k) != v and k != "HOME"}
        if extra or missing:
            ctx.violation("fingerprint environment differs: extra %r, wrong/missing %r" % (extra, missing), case, "fingerprint-env-mismatch")
    elif k == "sandbox":
        if not sandbox_available():
            print("replay: the sandbox helper does not work here")
            return
        c = case["case"]
        root, outside = outside_tmp_root(ctx, "replay")
        try:
            judge_sandbox(ctx, c, run_sandbox_case((c, root, ctx.repo)))
        finally:
            if outside:
                shutil.rmtree(root, ignore_errors=True)


MANIFEST = {
    "text": "Proved in Lean for all inputs (Props/C13.lean): bash reads shlex.quote(s) back as exactly s for every string without NUL, in "
            "any context of the generated prolog; bash evaluating the TEXT of the generated prolog yields exactly the initial "
            "environment plus the declared variables plus PATH/LD_LIBRARY_PATH/BOB_CWD with the composed values; the variables a step or "
            "fingerprint script sees are exactly declared (strong or weak, if defined) + Bob's + whitelisted host variables (all host "
            "variables only with -E); arguments are the declared dependencies in order; every tool is a component of PATH / "
            "LD_LIBRARY_PATH; under the helper's mount contract a sandboxed step sees of the project only its declared dependencies "
            "read-only and can write only to its workspace and private temporary directories. The hand-written model is tied to the "
            "current source by executing generated step specifications through the real Invoker/BashLanguage and the real bash "
            "(environment, arguments and arrays dumped NUL-separated by the step script) and by constants regenerated from the source.",
    "note": "trusted: Lean kernel, harness/props/c13.py, harness/gen/c13_child.py, tools/consts/c13.py, bash, CPython's shlex/os.path, "
            "bob-namespace-sandbox + kernel mount semantics (contract hypothesis of sandbox_view)",
    "technique": "Lean 4 proof over hand-written model + differential correspondence through real bash + declaration-based oracle",
}
