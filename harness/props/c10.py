"""C10 - workspace state commits atomically and is single-writer.

oracle (implementation only, no Lean):
  (a) crash-image replay: random API sequences grouped into invocations run on the real `_BobState` in a
      child process under strace; for every prefix of the *real* file-system operation trace the directory is
      materialised by this file's own POSIX bookkeeping (which contents are synced), unsynced files are garbled
      (truncations, zero fill, bit flips; only garblings this file itself verifies to be detectable), the stale
      lock is removed, a fresh `_BobState` is started and every public getter is compared with the admissible
      snapshots (state at the end of the last completed invocation, snapshots saved since).  The intact image
      (process kill) must give exactly the newest saved snapshot.
  (b) lock: a second instance (same process and racing processes) must be refused and must change nothing.
correspond (model `drv_c10` vs implementation):
  (R1) normalised strace trace of every API call == op list of the model, return values, decoded snapshot
       contents, the checksum trailer bit-exact;  (R2) `verify` on garbled real files vs the commit/discard
       decision of a fresh start;  (R3) `recover`+`init` of the model on real crash images (real pickles as an
       opaque table) vs the fresh start of the implementation;  (R4) version window.
"""
import ast
import hashlib
import inspect
import json
import os
import re
import shutil
import struct
import subprocess
import sys
import zlib

DRIVER = "drv_c10"
RULE = ("API sequences: 1-4 invocations of 0-12 calls over all state mutators of _BobState (result/input hashes, directory, "
        "layer and attic states, variant ids, storage paths, by-name directories, Jenkins servers/jobs, build state, "
        "setAsynchronous/setSynchronous incl. unbalanced use) with keys/values drawn from small pools so that no-op "
        "updates, deletions of absent keys and KeyErrors occur; some values are >8 KiB so a save needs several write "
        "syscalls. Crash images: every prefix of the real syscall trace x {intact, truncations, zero fill, bit flips} of "
        "the unsynced files. A case is distinct by (sequence, prefix, garbling) resp. (sequence, call index); an API call "
        "is non-trivial if it emits at least one file-system operation, a crash image if an unsynced state file exists.")
ASSUMPTIONS = [
    "POSIX: rename/unlink/O_EXCL create are atomic and ordered, the name table survives a crash (no directory fsync is modelled), "
    "fsync makes the content of a file durable, unsynced content may be replaced by anything",
    "Detectable garbling: an unsynced uncommitted file is after a crash either intact or fails the Adler-32 check (proved for "
    "truncation below 4 bytes, zero fill, any single-byte change; garblings that accidentally verify are skipped and counted)",
    "after a crash the user deletes the stale .bob-state.lock as the error message instructs; the next start is taken after that",
    "errors of the file system calls themselves (EIO, ENOSPC, read-only directory) and the non-EEXIST lock failure are not modelled",
    "pickle is an injective self-delimiting codec (Cfg.Lawful); version upgrades of old states are abstract (`Cfg.up`)",
    "little-endian host for struct.pack('=L') (checked at run time, otherwise skipped)",
    "the sqlite build-id cache is outside the model",
]

NAMES = {".bob-state.lock": "lock", ".bob-state.pickle": "pickle", ".bob-state.pickle.new": "new",
         ".bob-state.pickle.new.dirty": "dirty"}
PATHS = {v: k for k, v in NAMES.items()}

PATH_POOL = ["work/a/1", "work/b/1", "dist/x/1", "src/lib/2", "work/a/2"]
ATTIC_POOL = ["attic/a", "attic/./b", "attic//c", "attic/d/../a", "attic/e/"]
BASE_POOL = ["work/a", "work/b/c", "dist/x"]
DIGESTS = [b"d%d" % i for i in range(6)]
JENKINS = ["ci", "CI2", "third"]
JOBS = ["job-a", "job-b", "lib"]


# ---------------------------------------------------------------------------------------------
# code shared with the child process (its source text is copied into the helper file)

def canon(v):
    """canonical Python literal text of a value (dict items sorted); ast.literal_eval(canon(v)) == v"""
    if isinstance(v, dict):
        return "{" + ", ".join(canon(k) + ": " + canon(x) for k, x in sorted(v.items(), key=lambda kv: canon(kv[0]))) + "}"
    if isinstance(v, list):
        return "[" + ", ".join(canon(x) for x in v) + "]"
    if isinstance(v, tuple):
        return "(" + ", ".join(canon(x) for x in v) + ("," if len(v) == 1 else "") + ")"
    return repr(v)


def mkjc(fields):
    from bob.state import JenkinsConfig
    jc = JenkinsConfig(url=fields["url"])
    jc.prefix = fields.get("prefix", "")
    jc.nodes = fields.get("nodes", "")
    jc.download = fields.get("download", False)
    jc.upload = fields.get("upload", False)
    jc.keep = fields.get("keep", False)
    jc.roots = list(fields.get("roots", []))
    for k, v in sorted(fields.get("options", {}).items()):
        jc.setOption(k, v, lambda msg: None)
    return jc


def view(s, U):
    """everything the public getters of a _BobState instance reveal about the universe U"""
    v = {}
    for p in U["paths"]:
        v["res:" + p] = canon(s.getResultHash(p))
        v["inp:" + p] = canon(s.getInputHashes(p))
        v["dir:" + p] = canon(s.getDirectoryState(p, False))
        v["hasdir:" + p] = s.hasDirectoryState(p)
        v["vid:" + p] = canon(s.getVariantId(p))
        v["stor:" + p] = canon(s.getStoragePath(p))
        v["lay:" + p] = canon(s.getLayerState(p))
        v["haslay:" + p] = s.hasLayerState(p)
    for p in U["attics"]:
        v["att:" + p] = canon(s.getAtticDirectoryState(p))
    v["dirs"] = sorted(s.getDirectories())
    v["layers"] = sorted(s.getLayers())
    v["attics"] = sorted(s.getAtticDirectories())
    v["names"] = sorted(canon(x) for x in s.getAllNameDirectores())
    for d in U["digests"]:
        v["byname:" + d] = canon(s.getExistingByNameDirectory(ast.literal_eval(d)))
    js = sorted(s.getAllJenkins())
    v["jenkins"] = js
    for j in js:
        v["jcfg:" + j] = canon(s.getJenkinsConfig(j).dump())
        jobs = sorted(s.getJenkinsAllJobs(j))
        v["jjobs:" + j] = jobs
        for job in jobs:
            v["jjob:" + j + ":" + job] = canon(s.getJenkinsJobConfig(j, job))
    v["build"] = canon(s.getBuildState())
    return v


def do_call(s, c):
    m = c["m"]
    if m == "setAsync":
        return s.setAsynchronous()
    if m == "setSync":
        return s.setSynchronous()
    args = [ast.literal_eval(t) for t in c["p"]]
    if m in ("addJenkins", "setJenkinsConfig"):
        args[1] = mkjc(args[1])
    return getattr(s, m)(*args)


def child_main(argv):
    work, script_path, out_path = argv[1:4]
    script = json.load(open(script_path))
    os.chdir(work)
    from bob.state import _BobState
    mk = os.open("MARK", os.O_WRONLY | os.O_CREAT, 0o600)
    U = script["universe"]
    out = []
    devnull = open(os.devnull, "w")
    sys.stderr = devnull
    for k, calls in enumerate(script["invocations"]):
        rec = {"calls": []}
        out.append(rec)
        os.write(mk, b"I %d\n" % k)
        try:
            s = _BobState()
            rec["init"] = "ok"
        except BaseException as e:
            rec["init"] = type(e).__name__ + ":" + str(getattr(e, "slogan", e))[:60]
            os.write(mk, b"X %d\n" % k)
            continue
        os.write(mk, b"V %d\n" % k)
        rec["view0"] = view(s, U)
        for i, c in enumerate(calls):
            os.write(mk, b"C %d %d\n" % (k, i))
            r = {}
            try:
                ret = do_call(s, c)
                r["ret"] = ret if (ret is None or isinstance(ret, str)) else canon(ret)
            except BaseException as e:
                r["exc"] = type(e).__name__
            os.write(mk, b"V %d %d\n" % (k, i))
            r["view"] = view(s, U)
            rec["calls"].append(r)
        os.write(mk, b"F %d\n" % k)
        try:
            s.finalize()
            rec["fin"] = "ok"
        except BaseException as e:
            rec["fin"] = type(e).__name__
        os.write(mk, b"X %d\n" % k)
        s = None
    json.dump(out, open(out_path, "w"))


CHILD_TAIL = '''
if __name__ == "__main__":
    child_main(sys.argv)
'''


def child_source():
    return ("import ast, json, os, sys\n\n" + "\n\n".join(inspect.getsource(f) for f in (canon, mkjc, view, do_call, child_main))
            + CHILD_TAIL)


# ---------------------------------------------------------------------------------------------
# generators

def gen_value(r, big=False):
    k = r.randrange(5)
    if big:
        return bytes(r.choice(b"abcdefgh") for _ in range(64)) * r.randrange(130, 400)
    if k == 0:
        return r.choice([b"h1", b"h2", b"\x00\xff\x80", b""])
    if k == 1:
        return [r.choice([b"i1", b"i2"]) for _ in range(r.randrange(3))]
    if k == 2:
        return {r.choice([None, "sub", "a/b"]): (r.choice([b"d1", b"d2"]), r.choice([None, {"scm": "git", "url": "u"}]))}
    if k == 3:
        return (r.choice(["t1", "t2"]), r.randrange(3))
    return r.choice([b"v1", "text", 7, True])


def gen_call(r):
    """one API call: m = method, a = arguments for the model (strings), p = python literals for the child"""
    def S(m, a, p):
        return {"m": m, "a": a, "p": p}
    path = r.choice(PATH_POOL)
    k = r.random()
    if k < 0.06:
        return {"m": "setAsync"}
    if k < 0.12:
        return {"m": "setSync"}
    if k < 0.20:
        b, d, src = r.choice(BASE_POOL), r.choice(DIGESTS), r.random() < 0.5
        return S("getByNameDirectory", [b, canon(d), src], [repr(b), canon(d), repr(src)])
    if k < 0.52:
        m = r.choice(["setResultHash", "setInputHashes", "setVariantId", "setLayerState", "setDirectoryState"])
        v = gen_value(r, big=r.random() < 0.04)
        return S(m, [path, canon(v)], [repr(path), canon(v)])
    if k < 0.62:
        m = r.choice(["delInputHashes", "delLayerState", "delDirectoryState"])
        return S(m, [path], [repr(path)])
    if k < 0.68:
        st = r.choice(PATH_POOL + [path, "/store/" + path])
        return S("setStoragePath", [path, st], [repr(path), repr(st)])
    if k < 0.74:
        ds = None if r.random() < 0.4 else gen_value(r)
        return S("resetWorkspaceState", [path, None if ds is None else canon(ds)], [repr(path), canon(ds)])
    if k < 0.80:
        p = r.choice(ATTIC_POOL)
        if r.random() < 0.6:
            v = gen_value(r)
            return S("setAtticDirectoryState", [os.path.normpath(p), canon(v)], [repr(p), canon(v)])
        p = r.choice(ATTIC_POOL + [os.path.normpath(x) for x in ATTIC_POOL])
        return S("delAtticDirectoryState", [p], [repr(p)])
    if k < 0.86:
        v = {"wasRun": {r.choice(PATH_POOL): (r.choice([b"v1", b"v2"]), r.random() < 0.5)}, "predictedBuidId": {}}
        return S("setBuildState", [canon(v)], [canon(v)])
    j = r.choice(JENKINS)
    m = r.choice(["addJenkins", "addJenkins", "delJenkins", "getJenkinsByNameDirectory", "setJenkinsConfig", "addJenkinsJob",
                  "addJenkinsJob", "delJenkinsJob", "setJenkinsJobConfig"])
    if m in ("addJenkins", "setJenkinsConfig"):
        f = {"url": r.choice(["http://host/x", "https://u:pw@h.example:8443/jenkins/"]), "prefix": r.choice(["", "pre-"]),
             "download": r.random() < 0.5, "roots": r.choice([[], ["root"]]),
             "options": r.choice([{}, {"jobs.policy": "always"}, {"scm.poll": "H * * * *", "shared.quota": "5G"}])}
        return S(m, [j, canon(mkjc(f).dump())], [repr(j), canon(f)])
    if m == "delJenkins":
        return S(m, [j], [repr(j)])
    if m == "getJenkinsByNameDirectory":
        b, d = r.choice(BASE_POOL), r.choice(DIGESTS)
        return S(m, [j, b, canon(d)], [repr(j), repr(b), canon(d)])
    job = r.choice(JOBS)
    if m == "delJenkinsJob":
        return S(m, [j, job], [repr(j), repr(job)])
    v = {"hash": r.choice([b"c1", b"c2"]), "enabled": r.random() < 0.5}
    return S(m, [j, job, canon(v)], [repr(j), repr(job), canon(v)])


def gen_script(r, max_inv=4, max_calls=12):
    invs = []
    for _ in range(r.randrange(1, max_inv + 1)):
        calls = []
        depth = 0
        for _ in range(r.randrange(0, max_calls + 1)):
            c = gen_call(r)
            # mostly balanced asynchronous sections; a few sequences keep the unbalanced calls
            if c["m"] == "setSync" and depth == 0 and r.random() < 0.9:
                continue
            depth += {"setAsync": 1, "setSync": -1}.get(c["m"], 0)
            calls.append(c)
        if r.random() < 0.93:
            calls += [{"m": "setSync"}] * max(depth, 0)
        invs.append(calls)
    return {"invocations": invs,
            "universe": {"paths": sorted(set(PATH_POOL + ["/store/" + p for p in PATH_POOL])),
                         "attics": sorted(set(ATTIC_POOL + [os.path.normpath(x) for x in ATTIC_POOL])),
                         "digests": [canon(d) for d in DIGESTS]}}


# ---------------------------------------------------------------------------------------------
# running the child under strace, parsing the trace

SYSCALLS = ("openat,open,creat,write,pwrite64,writev,read,rename,renameat,renameat2,unlink,unlinkat,fsync,fdatasync,"
            "sync_file_range,close,ftruncate,truncate,newfstatat,stat,lstat,access,faccessat,faccessat2,link,linkat,symlink,symlinkat")
LINE = re.compile(r"^(\d+)\s+(\w+)\((.*)\)\s+=\s+(-?\d+|\?)(.*)$")
STR = re.compile(r'"((?:\\x[0-9a-f]{2})*)"(\.\.\.)?')


def _unhex(s):
    return bytes.fromhex(s.replace("\\x", ""))


class TraceError(Exception):
    pass


def strace_available():
    try:
        p = subprocess.run(["strace", "-o", os.devnull, "-e", "trace=write", "true"], stdout=subprocess.PIPE,
                           stderr=subprocess.PIPE, timeout=20)
        return p.returncode == 0
    except Exception:
        return False


def run_child(tmp, repo, script, tag):
    """run the script on the real _BobState under strace; returns (raw ops with segment labels, child record)"""
    base = os.path.join(tmp, "seq-%s" % tag)
    work = os.path.join(base, "w")
    os.makedirs(work)
    helper = os.path.join(tmp, "c10_child.py")
    if not os.path.exists(helper):
        with open(helper + ".%d" % os.getpid(), "w") as f:
            f.write(child_source())
        os.replace(helper + ".%d" % os.getpid(), helper)
    sp, op, tp = (os.path.join(base, n) for n in ("script.json", "out.json", "trace.txt"))
    json.dump(script, open(sp, "w"))
    cmd = ["strace", "-f", "-o", tp, "-xx", "-s", "4000000", "-e", "trace=" + SYSCALLS]
    for n in list(NAMES) + ["MARK"]:
        cmd += ["-P", n, "-P", os.path.join(os.path.realpath(work), n)]
    cmd += [sys.executable, helper, work, sp, op]
    env = dict(os.environ, PYTHONPATH=os.path.join(repo, "pym"), PYTHONDONTWRITEBYTECODE="1")
    p = subprocess.run(cmd, stdout=subprocess.PIPE, stderr=subprocess.PIPE, env=env, timeout=300)
    if p.returncode != 0 or not os.path.exists(op):
        raise TraceError("child failed rc=%s: %s" % (p.returncode, p.stderr.decode("utf-8", "replace")[-800:]))
    rec = json.load(open(op))
    ops = parse_trace(open(tp).read())
    shutil.rmtree(base, ignore_errors=True)
    return ops, rec


def parse_trace(text):
    """-> list of raw ops {"o","n",["to"],["data"],"seg"}; seg = ("I",k) | ("C",k,i) | ("F",k) | None (between markers: getters)"""
    ops = []
    fds = {}
    main = None
    seg = None
    for line in text.splitlines():
        m = LINE.match(line)
        if not m:
            continue
        pid, sc, args, ret, tail = m.groups()
        strs = STR.findall(args)
        if any(t for _, t in strs):
            raise TraceError("truncated string in strace output")
        strs = [_unhex(s).decode("utf-8", "surrogateescape") for s, _ in strs]
        ok = ret not in ("?",) and int(ret) >= 0
        if main is None:
            if sc == "openat" and strs and strs[0] == "MARK" and ok:
                main = pid
                fds[int(ret)] = "MARK"
            continue
        if pid != main:
            continue
        name = NAMES.get(os.path.basename(strs[0])) if strs else None

        def add(o, n, **kw):
            d = {"o": o, "n": n, "seg": seg}
            d.update(kw)
            ops.append(d)
        if sc in ("openat", "open", "creat"):
            path = strs[0]
            if ok:
                fds[int(ret)] = path
            if name is None:
                continue
            flags = args
            if "O_EXCL" in flags and "O_CREAT" in flags:
                add("createExcl", name, failed=not ok)
            elif "O_CREAT" in flags and not ok:
                add("create", name, failed=True)
            elif "O_TRUNC" in flags or sc == "creat":
                add("openTrunc", name, failed=not ok)
            elif "O_CREAT" in flags:
                add("create", name, failed=not ok)
            elif "O_WRONLY" in flags and ok:
                add("openWrite", name)
            # O_RDONLY / O_RDWR opens have no effect of their own
        elif sc in ("write", "pwrite64", "writev"):
            fd = int(args.split(",", 1)[0])
            path = fds.get(fd)
            if path == "MARK":
                t = strs[0].split()
                seg = {"I": lambda: ("I", int(t[1])), "C": lambda: ("C", int(t[1]), int(t[2])), "F": lambda: ("F", int(t[1])),
                       "V": lambda: None, "X": lambda: None}[t[0]]()
                continue
            n = NAMES.get(os.path.basename(path or ""))
            if n is None:
                continue
            if sc != "write":
                add("unmodelled:" + sc, n)
                continue
            data = _unhex(STR.search(args).group(1))[:max(int(ret), 0)] if ok else b""
            add("write", n, data=data, failed=not ok)
        elif sc == "read":
            fd = int(args.split(",", 1)[0])
            n = NAMES.get(os.path.basename(fds.get(fd) or ""))
            if n is not None:
                add("read", n)
        elif sc in ("fsync", "fdatasync", "sync_file_range"):
            fd = int(args.split(",", 1)[0])
            n = NAMES.get(os.path.basename(fds.get(fd) or ""))
            if n is not None:
                add("fsync", n, failed=not ok)
        elif sc == "close":
            fds.pop(int(args.split(",", 1)[0]), None)
        elif sc in ("rename", "renameat", "renameat2"):
            a, b = NAMES.get(os.path.basename(strs[0])), NAMES.get(os.path.basename(strs[1]))
            add("rename", a or strs[0], to=b or strs[1], failed=not ok)
        elif sc in ("unlink", "unlinkat"):
            add("unlink", name or strs[0], failed=not ok)
        elif sc in ("newfstatat", "stat", "lstat", "access", "faccessat", "faccessat2"):
            if strs and strs[0] and name is not None:
                add("stat", name)
        elif sc in ("ftruncate", "truncate", "link", "linkat", "symlink", "symlinkat"):
            add("unmodelled:" + sc, name or (strs[0] if strs else "?"))
    if main is None:
        raise TraceError("marker file never opened")
    return ops


# ---------------------------------------------------------------------------------------------
# this file's own POSIX bookkeeping (independent of the Lean model): directory image after a trace prefix

def fs_apply(fs, op):
    """fs: name -> [bytes, synced]"""
    if op.get("failed"):
        return
    o, n = op["o"], op["n"]
    if o == "createExcl" or o == "create":
        fs.setdefault(n, [b"", False])
    elif o == "openTrunc":
        fs[n] = [b"", False]
    elif o == "write":
        if n in fs:
            fs[n] = [fs[n][0] + op["data"], False]
    elif o == "fsync":
        if n in fs:
            fs[n][1] = True
    elif o == "rename":
        if n in fs and n != op["to"]:
            fs[op["to"]] = fs.pop(n)
    elif o == "unlink":
        fs.pop(n, None)


def my_verify(d):
    """the check a reader has to make, written independently of the implementation"""
    return len(d) >= 4 and struct.pack("<I", zlib.adler32(d[:-4]) & 0xffffffff) == d[-4:]


def garblings(r, data, thorough):
    """(label, garbled content) for one unsynced content"""
    n = len(data)
    out = []
    lens = set([0, 1, 3, 4, 5, n // 2, max(n - 5, 0), max(n - 4, 0), max(n - 1, 0)])
    if thorough:
        lens |= set(range(0, n, max(1, n // 64)))
    for l in sorted(x for x in lens if x < n):
        out.append(("trunc%d" % l, data[:l]))
    if n:
        out.append(("zeros", bytes(n)))
        out.append(("tailzeros", data[:n // 2] + bytes(n - n // 2)))
        for _ in range(64 if thorough else 3):
            i, b = r.randrange(n), 1 << r.randrange(8)
            out.append(("flip%d.%d" % (i, b), data[:i] + bytes([data[i] ^ b]) + data[i + 1:]))
        out.append(("trailerflip", data[:-1] + bytes([data[-1] ^ 0x10])))
    return out


EMPTY_VIEW = None


def fresh_start(workdir, image, U, keep_lock=False):
    """materialise the image (name -> bytes), start a fresh _BobState, return (outcome, view, listing)"""
    from bob.state import _BobState
    for f in os.listdir(workdir):
        os.unlink(os.path.join(workdir, f))
    for n, d in image.items():
        if n == "lock" and not keep_lock:
            continue
        with open(os.path.join(workdir, PATHS[n]), "wb") as f:
            f.write(d)
    cwd = os.getcwd()
    os.chdir(workdir)
    olderr = sys.stderr
    sys.stderr = open(os.devnull, "w")
    try:
        try:
            s = _BobState()
        except BaseException as e:
            return ("error:" + type(e).__name__ + ":" + str(getattr(e, "slogan", e))[:80], None, listing(workdir))
        try:
            v = view(s, U)
            files_after_init = listing(workdir)
        finally:
            s.finalize()
        return ("ok", v, files_after_init)
    finally:
        sys.stderr.close()
        sys.stderr = olderr
        os.chdir(cwd)


def listing(workdir):
    out = {}
    for f in sorted(os.listdir(workdir)):
        if f in NAMES:
            out[NAMES[f]] = open(os.path.join(workdir, f), "rb").read()
    return out


def empty_view(workdir, U):
    return fresh_start(workdir, {}, U)[1]


def seq_structure(ops, rec):
    """per raw op index bookkeeping of the snapshots (views) involved:
    returns list `durable[k]` = (base_view, [views saved since], latest_view) valid after k ops were applied"""
    # segment boundaries
    n = len(ops)
    events = []   # (op index after which it holds, kind, payload)
    for idx, op in enumerate(ops):
        seg = op["seg"]
        if op.get("failed") or seg is None:
            continue
        if op["o"] == "rename" and op["n"] == "dirty" and op["to"] == "new" and seg[0] == "C":
            events.append((idx + 1, "saved", seg))
        if op["o"] == "unlink" and op["n"] == "lock" and seg[0] == "F":
            events.append((idx + 1, "end", seg))
    return events


def admissible_at(k, events, rec, empty):
    """(base view, views saved since, latest durable view) after the first k raw ops, from the child's own records"""
    base, since, last = empty, [], empty
    cur_inv = None
    for at, kind, seg in events:
        if at > k:
            break
        inv = seg[1]
        if cur_inv != inv:
            # a new invocation started: its durable view is what it loaded
            cur_inv = inv
            last = rec[inv].get("view0", last)
        if kind == "saved":
            v = rec[inv]["calls"][seg[2]]["view"]
            since.append(v)
            last = v
        else:
            base, since = last, []
    return base, since, last


def crash_worker(job):
    """all crash images of one sequence; returns {"viol": [...], "cases": n, "hist": {...}, "images": [...]}"""
    import random
    tmp, repo, script, tag, seed, thorough, budget_images, want_images = job
    res = {"viol": [], "cases": 0, "nontrivial": 0, "hist": {}, "images": [], "skip": None, "traceops": 0}

    def count(h, k, n=1):
        res["hist"].setdefault(h, {})
        res["hist"][h][k] = res["hist"][h].get(k, 0) + n
    try:
        ops, rec = run_child(tmp, repo, script, tag)
    except TraceError as e:
        res["skip"] = "strace run failed: %s" % str(e)[:200]
        return res
    res["ops"], res["rec"] = ops, rec
    res["traceops"] = len(ops)
    r = random.Random(seed)
    work = os.path.join(tmp, "img-%s" % tag)
    os.makedirs(work, exist_ok=True)
    U = script["universe"]
    empty = empty_view(work, U)
    events = seq_structure(ops, rec)
    # unsaved-mutation check: what a completed invocation leaves on disk is what its getters showed at the end
    for at, kind, seg in events:
        if kind == "end":
            inv = rec[seg[1]]
            endview = inv["calls"][-1]["view"] if inv["calls"] else inv.get("view0")
            _, _, last = admissible_at(at - 1, events, rec, empty)
            if endview != last:
                res["viol"].append({"what": "invocation %d completed but its final in-memory state was never saved" % seg[1],
                                    "case": {"kind": "crash", "script": script, "prefix": at, "garble": "intact"},
                                    "signature": "unsaved-mutation-at-finalize"})
    fs = {}
    prefixes = list(range(len(ops) + 1))
    images_done = 0
    for k in prefixes:
        if k > 0:
            fs_apply(fs, ops[k - 1])
        if k > 0 and ops[k - 1]["o"] in ("stat", "read"):
            continue    # nothing changed since the previous prefix
        base, since, last = admissible_at(k, events, rec, empty)
        unsynced = {n: c for n, (c, s) in fs.items() if not s and n != "lock"}
        variants = [("intact", {})]
        if unsynced and images_done < budget_images:
            per = {n: garblings(r, c, thorough) for n, c in unsynced.items()}
            # one joint garbling per label class: every unsynced file gets "its" variant of that class
            for i in range(max(len(g) for g in per.values())):
                variants.append(("g%d" % i, {n: g[i % len(g)] for n, g in per.items() if g}))
        for label, gar in variants:
            image = {n: c for n, (c, s) in fs.items()}
            detectable = True
            desc = {}
            for n, (gl, gc) in gar.items():
                image[n] = gc
                desc[n] = gl
                if n == "new" and gc != fs[n][0] and my_verify(gc):
                    detectable = False
            if not detectable:
                count("garbling", "undetectable-skipped")
                continue
            outcome, v, after = fresh_start(work, image, U)
            images_done += 1
            res["cases"] += 1
            nontriv = bool(unsynced)
            res["nontrivial"] += nontriv
            count("garbling", "intact" if not gar else re.sub(r"\d+", "", "/".join(sorted(set(desc.values()))))[:40])
            case = {"kind": "crash", "script": script, "prefix": k, "garble": desc or "intact",
                    "image": {n: c.hex() for n, c in image.items() if n != "lock"} if sum(map(len, image.values())) < 6000 else "large"}
            if outcome != "ok":
                count("outcome", "start-error")
                res["viol"].append({"what": "after a crash at trace prefix %d (%s) the next start fails: %s" % (k, desc or "intact", outcome),
                                    "case": case, "signature": "start-fails-after-crash"})
                continue
            if v == last:
                count("outcome", "latest")
            elif v == base:
                count("outcome", "base")
            elif any(v == x for x in since):
                count("outcome", "older-saved-since")
            else:
                count("outcome", "NOT-A-SNAPSHOT")
                res["viol"].append({"what": "after a crash at trace prefix %d (%s) the loaded state is none of the %d admissible snapshots"
                                            % (k, desc or "intact", 1 + len(since)),
                                    "case": case, "signature": "recovered-state-not-admissible"})
                continue
            if not gar and v != last:
                res["viol"].append({"what": "process kill at trace prefix %d (nothing garbled) lost the newest saved snapshot" % k,
                                    "case": case, "signature": "intact-image-not-latest"})
            if want_images and len(res["images"]) < want_images and (gar or r.random() < 0.3):
                res["images"].append({"prefix": k, "fs": {n: [c.hex(), s] for n, (c, s) in fs.items()},
                                      "garble": {n: gc.hex() for n, (gl, gc) in gar.items()},
                                      "view": v, "after": {n: c.hex() for n, c in after.items()}})
    shutil.rmtree(work, ignore_errors=True)
    return res


# ---------------------------------------------------------------------------------------------
# lock oracle

def _race_worker(args):
    workdir, i, n = args
    from bob.state import _BobState
    import time
    os.chdir(workdir)
    sys.stderr = open(os.devnull, "w")

    def wait(prefix, count, timeout):
        t = time.time() + timeout
        while len([f for f in os.listdir(".") if f.startswith(prefix)]) < count:
            if time.time() > t:
                return False
            time.sleep(0.001)
        return True
    open("ready-%d" % i, "w").close()
    if not wait("ready-", n, 10):
        return "timeout"
    try:
        s = _BobState()
    except BaseException as e:
        open("done-%d" % i, "w").close()
        return type(e).__name__
    # the winner keeps the workspace until every competitor has had its try
    wait("done-", n - 1, 10)
    s.setInputHashes("p%d" % i, b"h")
    s.finalize()
    return "ok"


def lock_oracle(ctx):
    from bob.state import _BobState
    from bob.errors import ParseError
    r = ctx.subrng("lock")
    work = os.path.join(ctx.tmp, "lock")
    os.makedirs(work, exist_ok=True)
    cwd = os.getcwd()
    olderr = sys.stderr
    sys.stderr = open(os.devnull, "w")
    try:
        for i in range(ctx.scale(120, 1500)):
            if ctx.out_of_time():
                break
            for f in os.listdir(work):
                os.unlink(os.path.join(work, f))
            os.chdir(work)
            script = gen_script(r, 1, 6)
            calls = script["invocations"][0]
            cut = r.randrange(len(calls) + 1)
            case = {"kind": "lock", "script": script, "cut": cut}
            a = _BobState()
            try:
                for c in calls[:cut]:
                    try:
                        do_call(a, c)
                    except (KeyError, AssertionError):
                        pass
                before = listing(work)
                try:
                    b = _BobState()
                    refused = False
                    try:
                        b.finalize()
                    except BaseException:
                        pass
                except ParseError:
                    refused = True
                except BaseException as e:
                    refused = "other:" + type(e).__name__
                ctx.case(("lock", i, cut), nontrivial=cut > 0)
                ctx.count("lock", "refused" if refused is True else "NOT-refused")
                if refused is not True:
                    ctx.violation("a second _BobState instance started while the first one holds the workspace (%s)" % refused,
                                  case, "second-instance-not-refused")
                    continue
                if listing(work) != before:
                    ctx.violation("the refused second instance changed the workspace state files", case,
                                  "refused-instance-wrote")
                # the first instance goes on and releases the lock at the end
                for c in calls[cut:]:
                    try:
                        do_call(a, c)
                    except (KeyError, AssertionError):
                        pass
            finally:
                try:
                    a.finalize()
                    fin = True
                except AssertionError:
                    fin = False
            if fin and "lock" in listing(work):
                ctx.violation("finalize did not release the lock", case, "lock-not-released")
            if fin:
                try:
                    _BobState().finalize()
                except BaseException as e:
                    ctx.violation("a new instance cannot start after finalize: %s" % type(e).__name__, case, "lock-not-released")
        os.chdir(cwd)
        # racing processes: exactly one wins
        import time
        for i in range(ctx.scale(6, 40)):
            if ctx.out_of_time():
                break
            for f in os.listdir(work):
                os.unlink(os.path.join(work, f))
            out = ctx.parallel(_race_worker, [(work, j, 6) for j in range(6)], workers=6)
            if "timeout" in out:
                ctx.count("race_winners", "barrier-timeout")
                continue
            ctx.case(("race", i))
            ctx.count("race_winners", out.count("ok"))
            if out.count("ok") != 1:
                ctx.violation("%d of 6 instances started at the same time got the workspace: %r" % (out.count("ok"), out),
                              {"kind": "race", "n": 6}, "second-instance-not-refused")
    finally:
        sys.stderr.close()
        sys.stderr = olderr
        os.chdir(cwd)


# ---------------------------------------------------------------------------------------------
# oracle / correspondence drivers

def _jobs(ctx, n, tag, want_images=0):
    jobs = []
    per_seq = ctx.scale(70, 600)
    for i in range(n):
        r = ctx.subrng(tag, i)
        script = gen_script(r)
        jobs.append((ctx.tmp, ctx.repo, script, "%s%d" % (tag, i), "%s-%d-%s-%d" % (ctx.prop, ctx.seed, tag, i),
                     ctx.tier == "thorough", per_seq * 40, want_images))
    return jobs


_CACHE = {}


def _sequences(ctx):
    """run all sequences once (oracle and correspondence share the traces)"""
    if "seq" in _CACHE:
        return _CACHE["seq"]
    if sys.byteorder != "little":
        ctx.skip("big-endian host: trailer layout not modelled")
        _CACHE["seq"] = []
        return []
    if not strace_available():
        ctx.skip("strace unavailable: no syscall traces, crash-image replay and trace correspondence not run")
        _CACHE["seq"] = []
        return []
    n = ctx.scale(150, 5000)
    out = []
    # in chunks so that the time budget can stop the stream
    jobs = _jobs(ctx, n, "s", want_images=12)
    chunk = 48
    for i in range(0, len(jobs), chunk):
        if ctx.time_left() < ctx.budget * 0.35:
            ctx.notes["sequences_cut_by_budget"] = i
            break
        out += ctx.parallel(crash_worker, jobs[i:i + chunk])
    _CACHE["seq"] = out
    return out


def saved_files(seqs):
    """distinct contents the implementation wrote as uncommitted state files, from the real traces"""
    out, seen = [], set()
    for s in seqs:
        cur = None
        for op in s.get("ops", []):
            if op["o"] == "openTrunc" and op["n"] == "dirty":
                cur = b""
            elif op["o"] == "write" and op["n"] == "dirty" and cur is not None:
                cur += op["data"]
            elif op["o"] == "rename" and op["n"] == "dirty" and cur is not None:
                h = hashlib.sha1(cur).digest()
                if h not in seen:
                    seen.add(h)
                    out.append(cur)
                cur = None
    return out


def verify_cases(ctx):
    """fresh starts on a directory that holds only an uncommitted file: is it committed?"""
    if "verify" in _CACHE:
        return _CACHE["verify"]
    r = ctx.subrng("verify")
    work = os.path.join(ctx.tmp, "verify")
    os.makedirs(work, exist_ok=True)
    U = {"paths": [], "attics": [], "digests": []}
    out = []
    src = [d for d in saved_files(_sequences(ctx)) if len(d) < 3000][:ctx.scale(60, 600)]
    for d in src:
        gl = garblings(r, d, False) + [("intact", d), ("random", bytes(r.randrange(256) for _ in range(r.randrange(12)))),
                                      ("empty-adler", b"\x01\x00\x00\x00")]
        for label, g in gl:
            outcome, _, after = fresh_start(work, {"new": g}, U)
            out.append((label, g, "pickle" in after, outcome))
    shutil.rmtree(work, ignore_errors=True)
    _CACHE["verify"] = out
    return out


def oracle(ctx):
    seqs = _sequences(ctx)
    for i, res in enumerate(seqs):
        if res["skip"]:
            ctx.skip(res["skip"])
            continue
        for j in range(res["cases"]):
            ctx.case(("img", i, j), nontrivial=j < res["nontrivial"],
                     sample={"sequence": [[c["m"] for c in inv] for inv in _script_of(ctx, i)["invocations"]],
                             "trace_ops": res["traceops"], "crash_images": res["cases"]} if j == 0 and i < 2 else None)
        for h, d in res["hist"].items():
            for k, v in d.items():
                ctx.count(h, k, v)
        for v in res["viol"]:
            ctx.violation(v["what"], v["case"], v["signature"])
    for label, g, committed, outcome in verify_cases(ctx):
        ctx.case(("verify-impl", g[:64], len(g)))
        if my_verify(g) != committed:
            ctx.violation("a fresh start %s an uncommitted file whose Adler-32 trailer %s (%s)" %
                          ("commits" if committed else "discards", "mismatches" if committed else "matches", label),
                          {"kind": "verify", "hex": g.hex()}, "verify-decision-wrong")
    lock_oracle(ctx)


def _script_of(ctx, i):
    return gen_script(ctx.subrng("s", i))


def norm_ops(ops):
    """raw ops of one segment -> the vocabulary of the model (consecutive writes / reads merged)"""
    out = []
    for op in ops:
        o = op["o"]
        if op.get("failed") and o != "createExcl":
            out.append({"o": o + ":failed", "n": op["n"]})
            continue
        if o == "write":
            if out and out[-1]["o"] == "append" and out[-1]["n"] == op["n"]:
                out[-1]["data"] += op["data"]
            else:
                out.append({"o": "append", "n": op["n"], "data": op["data"]})
        elif o == "read":
            if not (out and out[-1]["o"] == "read" and out[-1]["n"] == op["n"]):
                out.append({"o": "read", "n": op["n"]})
        elif o == "rename":
            out.append({"o": "rename", "n": op["n"], "to": op["to"]})
        else:
            out.append({"o": o, "n": op["n"]})
    return out


def snap_of_state(st):
    """the unpickled state dictionary in the shape of the model's `St`"""
    import pickle  # noqa
    bn = st["byNameDirs"]
    return {
        "counters": {k: v for k, v in bn.items() if isinstance(v, int)},
        "dirs": {canon(k): [v[0], bool(v[1])] for k, v in bn.items() if not isinstance(v, int)},
        "results": {k: canon(v) for k, v in st["results"].items()},
        "inputs": {k: canon(v) for k, v in st["inputs"].items()},
        "jenkins": {k: {"config": canon(v["config"]), "jobs": {a: canon(b) for a, b in v["jobs"].items()},
                        "counters": {a: b for a, b in v.get("byNameDirs", {}).items() if isinstance(b, int)},
                        "dirs": {canon(a): b for a, b in v.get("byNameDirs", {}).items() if not isinstance(b, int)}}
                    for k, v in st["jenkins"].items()},
        "dirStates": {k: canon(v) for k, v in st["dirStates"].items()},
        "layerStates": {k: canon(v) for k, v in st["layerStates"].items()},
        "buildState": canon(st["buildState"]),
        "variantIds": {k: canon(v) for k, v in st["variantIds"].items()},
        "atticDirs": {k: canon(v) for k, v in st["atticDirs"].items()},
        "createdWithVersion": st["createdWithVersion"],
        "storagePath": {k: v for k, v in st["storagePath"].items()},
    }


def model_call(c):
    return {"m": c["m"], "a": c.get("a", [])}


def compare_segment(ctx, rel, case, real, model, encs):
    """real: normalised ops (bytes in data); model: ops of the driver; returns True when equal"""
    import pickle
    rs, ms = [], []
    for op in real:
        d = {k: v for k, v in op.items() if k != "data"}
        if "data" in op:
            data = op["data"]
            try:
                st = pickle.loads(data[:-4])
                d["snap"], d["version"] = snap_of_state(st), st["version"]
                if sorted(st) != sorted(_consts_keys(ctx)):
                    d["keys"] = sorted(st)
            except Exception as e:  # noqa
                d["snap"] = "undecodable:" + type(e).__name__
            encs.append((data, case))
        rs.append(d)
    for op in model:
        d = {k: v for k, v in op.items() if k != "data"}
        if "data" in op:
            dd = op["data"]
            d["snap"], d["version"] = dd.get("snap"), dd.get("version")
            if not dd.get("verifies"):
                d["verifies"] = False
        ms.append(d)
    if rs != ms:
        ctx.disagree(rel, case, rs, ms)
        return False
    return True


def _consts_keys(ctx):
    if "keys" not in _CACHE:
        sys.path.insert(0, os.path.join(os.path.dirname(os.path.dirname(os.path.dirname(os.path.abspath(__file__)))), "tools"))
        from consts import c10 as cc
        src = cc.extract(ctx.repo)
        m = re.search(r"def stateKeys : List String := \[(.*)\]", src)
        _CACHE["keys"] = re.findall(r'"([^"]*)"', m.group(1))
    return _CACHE["keys"]


def correspond(ctx):
    seqs = _sequences(ctx)
    live = [(i, s) for i, s in enumerate(seqs) if not s["skip"] and "ops" in s]
    if not live:
        return
    names = ctx.lean(DRIVER, [{"op": "names"}])[0]
    if names != {v: k for k, v in NAMES.items()}:
        ctx.disagree("file names of the model == file names used by the harness", {}, PATHS, names)
    # ---- R1: trace of every API call
    reqs = [{"op": "run", "invocations": [[model_call(c) for c in inv] for inv in _script_of(ctx, i)["invocations"]]}
            for i, _ in live]
    replies = ctx.lean(DRIVER, reqs)
    encs = []
    REL = "strace(_BobState API call) == ops of Model.StateFS (initRun/callStep/finalizeEvs)"
    for (i, s), rep in zip(live, replies):
        script = _script_of(ctx, i)
        ops, rec = s["ops"], s["rec"]
        seg_ops = {}
        stray = []
        for op in ops:
            if op["seg"] is None:
                stray.append(op)
            else:
                seg_ops.setdefault(tuple(op["seg"]), []).append(op)
        if stray:
            ctx.disagree("getters perform no file system operation", {"seq": i, "script": script},
                         [{k: v for k, v in o.items() if k != "data"} for o in stray[:5]], [])
        for k, (inv, minv, r) in enumerate(zip(script["invocations"], rep["invocations"], rec)):
            case = {"seq": i, "invocation": k, "script": script}
            # init
            real = norm_ops(seg_ops.get(("I", k), []))
            ok = compare_segment(ctx, REL, dict(case, phase="init"), real, minv["init"]["ops"], encs)
            ri = "ok" if r["init"] == "ok" else ("locked" if "locked" in r["init"] else r["init"])
            if ri != minv["init"]["res"]:
                ctx.disagree("result of _BobState() == initRun.res", dict(case, phase="init"), ri, minv["init"]["res"])
            ctx.case(("init", i, k), nontrivial=True)
            ctx.count("init", ri if ri in ("ok", "locked") else "error")
            if ri != "ok" or "calls" not in minv:
                continue
            for j, (c, rc, mc) in enumerate(zip(inv, r["calls"], minv["calls"])):
                real = norm_ops(seg_ops.get(("C", k, j), []))
                ccase = dict(case, call=j, m=c["m"])
                compare_segment(ctx, REL, ccase, real, mc["ops"], encs)
                ctx.case(("call", i, k, j), nontrivial=bool(real),
                         sample={"call": c["m"], "args": c.get("a"), "ops": [o["o"] + " " + o["n"] for o in real]} if real else None)
                ctx.count("call", c["m"] + (":save" if real else ":nosave"))
                # return value / exception
                if "exc" in rc:
                    impl = "AssertionError" if rc["exc"] == "AssertionError" else rc["exc"]
                    mod = "AssertionError" if mc["raised"] else ("KeyError" if mc["ret"] == "KeyError" else "none")
                else:
                    impl = rc["ret"]
                    mod = "AssertionError" if mc["raised"] else (mc["ret"]["str"] if isinstance(mc["ret"], dict) else mc["ret"])
                if impl != mod:
                    ctx.disagree("return value / exception of the API call == model", ccase, impl, mod)
                if "exc" in rc:
                    ctx.count("exception", rc["exc"])
            real = norm_ops(seg_ops.get(("F", k), []))
            compare_segment(ctx, REL, dict(case, phase="finalize"), real, minv["fin"]["ops"], encs)
            if (r.get("fin") == "AssertionError") != bool(minv["fin"]["raised"]):
                ctx.disagree("finalize assertion == model", dict(case, phase="finalize"), r.get("fin"), minv["fin"]["raised"])
            ctx.case(("fin", i, k))
            ctx.count("finalize", r.get("fin"))
        ctx.trace_validated(1)
    # ---- the trailer, bit exact, and verify on garbled files (R2)
    r = ctx.subrng("verify")
    ereqs, ewant, ecase = [], [], []
    seen = set()
    for data, case in encs:
        h = hashlib.sha1(data).digest()
        if h in seen or len(data) > 60000:
            continue
        seen.add(h)
        ereqs.append({"op": "enc", "hex": data[:-4].hex()})
        ewant.append({"hex": data.hex()})
        ecase.append(("enc", case))
        if len(ereqs) > ctx.scale(1500, 20000):
            break
    for label, g, committed, outcome in verify_cases(ctx):
        ereqs.append({"op": "verify", "hex": g.hex()})
        ewant.append({"ok": committed})
        ecase.append(("verify", {"label": label, "hex": g.hex() if len(g) < 400 else "large", "start": outcome}))
    for req, want, (kind, case), got in zip(ereqs, ewant, ecase, ctx.lean(DRIVER, ereqs) if ereqs else []):
        ctx.case((kind, req["hex"][:64], len(req["hex"])), nontrivial=True)
        ctx.count("bytes", kind + (":" + str(want.get("ok")) if kind == "verify" else ""))
        if got != want:
            ctx.disagree("enc/verify of the model == bytes written / commit decision of the implementation (%s)" % kind,
                         case if kind == "verify" else {"seq": case.get("seq"), "call": case.get("call")}, want, got)
    ctx.trace_validated(len(ereqs))
    # ---- R3: recover + init of the model on real crash images
    import pickle
    rreqs, rwant, rcase = [], [], []
    for i, s in live:
        table, views = [], []
        # every distinct content ever written with its decoded view comes from the images themselves
        for img in s["images"]:
            contents = [bytes.fromhex(c) for c, _ in img["fs"].values()] + [bytes.fromhex(c) for c in img["after"].values()]
            for cbytes in contents:
                if my_verify(cbytes) and cbytes[:-4] not in [t for t, _ in table]:
                    try:
                        table.append((cbytes[:-4], pickle.loads(cbytes[:-4])["version"]))
                    except Exception:  # noqa
                        pass
        for img in s["images"]:
            rreqs.append({"op": "recover", "files": {n: {"hex": c, "synced": sy} for n, (c, sy) in img["fs"].items()},
                          "garble": img["garble"], "table": [{"hex": t.hex(), "version": v} for t, v in table]})
            pk = img["after"].get("pickle")
            loaded = None
            if pk is not None:
                b = bytes.fromhex(pk)
                loaded = next((j for j, (t, _) in enumerate(table) if b[:-4] == t), "unknown")
            rwant.append({"res": "ok", "loaded": loaded,
                          "files": {n: c for n, c in img["after"].items()}})
            rcase.append({"seq": i, "prefix": img["prefix"], "garble": {n: (g if len(g) < 200 else "large") for n, g in img["garble"].items()}})
    for want, case, got in zip(rwant, rcase, ctx.lean(DRIVER, rreqs) if rreqs else []):
        g = {"res": got.get("res"), "loaded": got.get("loaded"),
             "files": {n: f["data"] for n, f in got.get("files", {}).items()}}
        ctx.case(("recover", case["seq"], case["prefix"], json.dumps(case["garble"], sort_keys=True)))
        ctx.count("recover", "loaded" if want["loaded"] is not None else "no-state")
        if g != want:
            ctx.disagree("fresh start on a crash image == initRun (recover fs g) of the model", case, _short(want), _short(g))
    ctx.trace_validated(len(rreqs))
    # ---- R4: version window
    vreqs, vwant = [], []
    work = os.path.join(ctx.tmp, "version")
    os.makedirs(work, exist_ok=True)
    U = {"paths": [], "attics": [], "digests": []}
    st0 = {"byNameDirs": {}, "results": {"p": b"h"}, "inputs": {}, "jenkins": {}, "dirStates": {}, "buildState": {},
           "variantIds": {}, "atticDirs": {}, "layerStates": {}, "storagePath": {}}
    for v in range(0, 14):
        st = dict(st0, version=v, createdWithVersion=v)
        if v <= 5:
            st["buildState"] = {}
        p = pickle.dumps(st)
        outcome, _, _ = fresh_start(work, {"pickle": p + struct.pack("<I", zlib.adler32(p))}, U)
        kind = "ok" if outcome == "ok" else ("tooOld" if "cannot read the workspace" in outcome else
                                               "tooNew" if "too old for the workspace" in outcome else outcome)
        vreqs.append({"op": "recover", "files": {"pickle": {"hex": (p + struct.pack("<I", zlib.adler32(p))).hex(), "synced": True}},
                      "garble": {}, "table": [{"hex": p.hex(), "version": v}]})
        vwant.append(kind)
    for v, (want, got) in enumerate(zip(vwant, ctx.lean(DRIVER, vreqs))):
        ctx.case(("version", v))
        ctx.count("version_window", want)
        if got.get("res") != want:
            ctx.disagree("version window of __init__ == loadBytes", {"version": v}, want, got.get("res"))
    shutil.rmtree(work, ignore_errors=True)


def _short(d):
    return json.loads(json.dumps(d, default=repr), object_hook=lambda o: {k: (v[:80] + "..." if isinstance(v, str) and len(v) > 90 else v)
                                                                           for k, v in o.items()})


# ---------------------------------------------------------------------------------------------
# replay

def replay(ctx, case):
    k = case.get("kind")
    if k == "crash":
        import random
        script = case["script"]
        ops, rec = run_child(ctx.tmp, ctx.repo, script, "replay")
        work = os.path.join(ctx.tmp, "replay-img")
        os.makedirs(work, exist_ok=True)
        U = script["universe"]
        empty = empty_view(work, U)
        events = seq_structure(ops, rec)
        fs = {}
        for op in ops[:case["prefix"]]:
            fs_apply(fs, op)
        base, since, last = admissible_at(case["prefix"], events, rec, empty)
        image = {n: c for n, (c, s) in fs.items()}
        if isinstance(case.get("image"), dict):
            for n, h in case["image"].items():
                image[n] = bytes.fromhex(h)
            for n in list(image):
                if n != "lock" and n not in case["image"]:
                    del image[n]
        outcome, v, _ = fresh_start(work, image, U)
        if outcome != "ok":
            ctx.violation("the next start fails: " + outcome, case, "start-fails-after-crash")
        elif not (v == base or v == last or any(v == x for x in since)):
            ctx.violation("loaded state is not an admissible snapshot", case, "recovered-state-not-admissible")
        elif case.get("garble") == "intact" and v != last:
            ctx.violation("newest saved snapshot lost without garbling", case, "intact-image-not-latest")
        for at, kind, seg in events:
            if kind == "end" and at == case["prefix"]:
                inv = rec[seg[1]]
                endview = inv["calls"][-1]["view"] if inv["calls"] else inv.get("view0")
                if endview != admissible_at(at - 1, events, rec, empty)[2]:
                    ctx.violation("final in-memory state never saved", case, "unsaved-mutation-at-finalize")
    elif k == "verify":
        work = os.path.join(ctx.tmp, "replay-verify")
        os.makedirs(work, exist_ok=True)
        g = bytes.fromhex(case["hex"])
        _, _, after = fresh_start(work, {"new": g}, {"paths": [], "attics": [], "digests": []})
        if ("pickle" in after) != my_verify(g):
            ctx.violation("commit decision differs from the Adler-32 check", case, "verify-decision-wrong")
    elif k in ("lock", "race"):
        from bob.state import _BobState
        from bob.errors import ParseError
        work = os.path.join(ctx.tmp, "replay-lock")
        os.makedirs(work, exist_ok=True)
        cwd = os.getcwd()
        os.chdir(work)
        try:
            a = _BobState()
            for c in case.get("script", {"invocations": [[]]})["invocations"][0][:case.get("cut", 0)]:
                try:
                    do_call(a, c)
                except (KeyError, AssertionError):
                    pass
            before = listing(work)
            try:
                _BobState()
                ctx.violation("second instance not refused", case, "second-instance-not-refused")
            except ParseError:
                if listing(work) != before:
                    ctx.violation("refused instance wrote", case, "refused-instance-wrote")
        finally:
            os.chdir(cwd)


MANIFEST = {
    "text": "Proved in Lean for all histories (Props/C10.lean) about a model of _BobState's save/commit/load/finalize/lock protocol over "
            "an abstract file system with synced/unsynced contents: for every sequence of API calls grouped into invocations, every "
            "prefix of the file-system operation trace and every detectable garbling of unsynced files, the next start loads without "
            "error the state at the end of the last completed invocation or one snapshot saved since (also after repeated crashes); the "
            "committed file is durable at every instant; two instances never hold the workspace together and a refused start changes "
            "nothing; asynchronous sections emit nothing and end in exactly one save; the Adler-32 trailer round-trips, rejects short and "
            "all-zero files and any single-byte change. The model is tied to the current source by strace-level differential runs of "
            "random API sequences (op lists, snapshots, trailer bytes, recovery of real crash images) and regenerated constants. "
            "Independently the crash-image replay on the implementation is the property oracle.",
    "note": "trusted: Lean kernel, harness/props/c10.py (incl. its strace parser and POSIX bookkeeping), tools/consts/c10.py, CPython "
            "pickle/zlib/struct/os, strace; assumptions: POSIX rename/unlink/O_EXCL atomic and durable in order, fsync durable, Detectable "
            "garbling, stale lock removed by the user after a crash",
    "technique": "Lean 4 invariant proof over hand-written model + strace differential correspondence + crash-image replay oracle",
}
