"""C10 - workspace state commits atomically and is single-writer.

oracle (implementation only, no Lean):
  (a) crash-image replay: random API sequences grouped into invocations run on the real `_BobState` in a
      child process under strace; for every prefix of the *real* file-system operation trace the directory is
      materialised by this file's own POSIX bookkeeping (which contents are synced), unsynced files are garbled
      (truncations, zero fill, bit flips; only garblings this file itself verifies to be detectable), the stale
      lock is removed, a fresh `_BobState` is started and every public getter is compared with the admissible
      snapshots (state at the end of the last completed invocation, snapshots saved since).  The intact image
      (process kill) must give exactly the newest saved snapshot.
  (b) lock: a second instance (same process and racing processes) must be refused and must change nothing.
correspond (model `drv_c10` vs implementation):
  (R1) normalised strace trace of every API call == op list of the model, return values, decoded snapshot
       contents, the checksum trailer bit-exact;  (R2) `verify` on garbled real files vs the commit/discard
       decision of a fresh start;  (R3) `recover`+`init` of the model on real crash images (real pickles as an
       opaque table) vs the fresh start of the implementation;  (R4) version window.
"""
import ast
import copy
import hashlib
import inspect
import json
import os
import re
import shutil
import struct
import subprocess
import sys
import zlib

DRIVER = "drv_c10"
RULE = ("API sequences: 1-4 invocations of 0-12 calls over all state mutators of _BobState (result/input hashes, directory, "
        "layer and attic states, variant ids, storage paths, by-name directories, Jenkins servers/jobs, build state, "
        "setAsynchronous/setSynchronous incl. unbalanced use) with keys/values drawn from small pools so that no-op "
        "updates, deletions of absent keys and KeyErrors occur; some values are >8 KiB so a save needs several write "
        "syscalls. Crash images: every prefix of the real syscall trace x {intact, truncations, zero fill, bit flips} of "
        "the unsynced files. A case is distinct by (sequence, prefix, garbling) resp. (sequence, call index); an API call "
        "is non-trivial if it emits at least one file-system operation, a crash image if an unsynced state file exists.")
ASSUMPTIONS = [
    "POSIX: rename/unlink/O_EXCL create are atomic and ordered, the name table survives a crash (no directory fsync is modelled), "
    "fsync makes the content of a file durable, unsynced content may be replaced by anything",
    "Detectable garbling: an unsynced uncommitted file is after a crash either intact or fails the Adler-32 check (proved for "
    "truncation below 4 bytes, zero fill, any single-byte change; garblings that accidentally verify are skipped and counted)",
    "after a crash the user deletes the stale .bob-state.lock as the error message instructs; the next start is taken after that",
    "I/O errors: an injected OSError makes the call fail without effect (a failed write leaves a prefix in .dirty, which nobody "
    "reads); a failed fsync leaves the file unsynced; injection is by wrapping open/os.fsync/os.replace/os.unlink/os.stat/os.open "
    "in the child process (ENOSPC, EIO), not by the kernel",
    "the finalize of the model is the one of the current source (regenerated constant finalizeVerifiesUntrusted, 99181a7); for the "
    "code before the fix the fault statement is refuted (Props/C10.recover_is_snapshot_faulty_old_refuted, F-C10-3)",
    "pickle is an injective self-delimiting codec (Cfg.Lawful); version upgrades of old states are abstract (`Cfg.up`)",
    "little-endian host for struct.pack('=L') (checked at run time, otherwise skipped)",
    "the sqlite build-id cache is outside the model",
]

NAMES = {".bob-state.lock": "lock", ".bob-state.pickle": "pickle", ".bob-state.pickle.new": "new",
         ".bob-state.pickle.new.dirty": "dirty"}
PATHS = {v: k for k, v in NAMES.items()}

PATH_POOL = ["work/a/1", "work/b/1", "dist/x/1", "src/lib/2", "work/a/2"]
ATTIC_POOL = ["attic/a", "attic/./b", "attic//c", "attic/d/../a", "attic/e/"]
BASE_POOL = ["work/a", "work/b/c", "dist/x"]
DIGESTS = [b"d%d" % i for i in range(6)]
JENKINS = ["ci", "CI2", "third"]
JOBS = ["job-a", "job-b", "lib"]


# ---------------------------------------------------------------------------------------------
# code shared with the child process (its source text is copied into the helper file)

def canon(v):
    """canonical Python literal text of a value (dict items sorted); ast.literal_eval(canon(v)) == v"""
    if isinstance(v, dict):
        return "{" + ", ".join(canon(k) + ": " + canon(x) for k, x in sorted(v.items(), key=lambda kv: canon(kv[0]))) + "}"
    if isinstance(v, list):
        return "[" + ", ".join(canon(x) for x in v) + "]"
    if isinstance(v, tuple):
        return "(" + ", ".join(canon(x) for x in v) + ("," if len(v) == 1 else "") + ")"
    return repr(v)


def mkjc(fields):
    from bob.state import JenkinsConfig
    jc = JenkinsConfig(url=fields["url"])
    jc.prefix = fields.get("prefix", "")
    jc.nodes = fields.get("nodes", "")
    jc.download = fields.get("download", False)
    jc.upload = fields.get("upload", False)
    jc.keep = fields.get("keep", False)
    jc.roots = list(fields.get("roots", []))
    for k, v in sorted(fields.get("options", {}).items()):
        jc.setOption(k, v, lambda msg: None)
    return jc


def view(s, U):
    """everything the public getters of a _BobState instance reveal about the universe U"""
    v = {}
    for p in U["paths"]:
        v["res:" + p] = canon(s.getResultHash(p))
        v["inp:" + p] = canon(s.getInputHashes(p))
        v["dir:" + p] = canon(s.getDirectoryState(p, False))
        v["hasdir:" + p] = s.hasDirectoryState(p)
        v["vid:" + p] = canon(s.getVariantId(p))
        v["stor:" + p] = canon(s.getStoragePath(p))
        v["lay:" + p] = canon(s.getLayerState(p))
        v["haslay:" + p] = s.hasLayerState(p)
    for p in U["attics"]:
        v["att:" + p] = canon(s.getAtticDirectoryState(p))
    v["dirs"] = sorted(s.getDirectories())
    v["layers"] = sorted(s.getLayers())
    v["attics"] = sorted(s.getAtticDirectories())
    v["names"] = sorted(canon(x) for x in s.getAllNameDirectores())
    for d in U["digests"]:
        v["byname:" + d] = canon(s.getExistingByNameDirectory(ast.literal_eval(d)))
    js = sorted(s.getAllJenkins())
    v["jenkins"] = js
    for j in js:
        v["jcfg:" + j] = canon(s.getJenkinsConfig(j).dump())
        jobs = sorted(s.getJenkinsAllJobs(j))
        v["jjobs:" + j] = jobs
        for job in jobs:
            v["jjob:" + j + ":" + job] = canon(s.getJenkinsJobConfig(j, job))
    v["build"] = canon(s.getBuildState())
    return v


def do_call(s, c, held=None):
    """held: the argument objects handed to the container setters so far (per instance), keyed by (method, path text);
    a call with "resub" mutates THAT object in place and hands the very same object in again (as the builder does)"""
    m = c["m"]
    if m == "setAsync":
        return s.setAsynchronous()
    if m == "setSync":
        return s.setSynchronous()
    args = [ast.literal_eval(t) for t in c["p"]]
    if held is not None and m in ("setDirectoryState", "setLayerState", "setAtticDirectoryState"):
        key = m + ":" + c["p"][0]
        if "resub" in c:
            obj = held[key]
            kind, kt, vt = c["resub"]
            if kind == "dict":
                obj[ast.literal_eval(kt)] = ast.literal_eval(vt)
            else:
                obj.append(ast.literal_eval(vt))
            assert obj == args[1], "harness: in-place mutated object differs from the generated value"
            args[1] = obj
        elif isinstance(args[1], (dict, list)):
            held[key] = args[1]
    if m in ("addJenkins", "setJenkinsConfig"):
        args[1] = mkjc(args[1])
    return getattr(s, m)(*args)


def run_script(script, mk, seqno):
    """execute one script (list of invocations) on the real _BobState in the current directory"""
    from bob.state import _BobState
    U = script["universe"]
    out = []
    os.write(mk, b"S %d\n" % seqno)
    for k, calls in enumerate(script["invocations"]):
        rec = {"calls": []}
        out.append(rec)
        os.write(mk, b"I %d\n" % k)
        try:
            s = _BobState()
            rec["init"] = "ok"
        except BaseException as e:
            rec["init"] = type(e).__name__ + ":" + str(getattr(e, "slogan", e))[:60]
            os.write(mk, b"X %d\n" % k)
            continue
        os.write(mk, b"V %d\n" % k)
        rec["view0"] = view(s, U)
        held = {}
        for i, c in enumerate(calls):
            os.write(mk, b"C %d %d\n" % (k, i))
            r = {}
            try:
                ret = do_call(s, c, held)
                r["ret"] = ret if (ret is None or isinstance(ret, str)) else canon(ret)
            except BaseException as e:
                r["exc"] = type(e).__name__
            os.write(mk, b"V %d %d\n" % (k, i))
            r["view"] = view(s, U)
            rec["calls"].append(r)
        os.write(mk, b"F %d\n" % k)
        try:
            s.finalize()
            rec["fin"] = "ok"
        except BaseException as e:
            rec["fin"] = type(e).__name__
        os.write(mk, b"X %d\n" % k)
        s = None
    return out


def child_main(argv):
    """argv: base directory, scripts file, output file, trace file, syscall list.  The process imports everything,
    then lets strace attach to itself, so that only the state operations are traced."""
    import subprocess
    import time
    import urllib.parse  # noqa (imported lazily by JenkinsConfig otherwise)
    import re  # noqa
    base, script_path, out_path, trace_path, syscalls = argv[1:6]
    scripts = json.load(open(script_path))
    import bob.state  # noqa
    mkjc({"url": "http://warm/up", "options": {"shared.quota": "1G"}}).dump()
    devnull = open(os.devnull, "w")
    tracer = subprocess.Popen(["strace", "-f", "-p", str(os.getpid()), "-o", trace_path, "-xx", "-s", "300000",
                               "-e", "trace=" + syscalls], stdout=devnull, stderr=subprocess.PIPE)
    t0 = time.time()
    while True:
        st = open("/proc/self/status").read()
        if int(st.split("TracerPid:")[1].split()[0]) != 0:
            break
        if tracer.poll() is not None or time.time() - t0 > 20:
            sys.stdout.write("NOTRACE " + (tracer.stderr.read().decode("utf-8", "replace")[-300:] if tracer.poll() is not None else "timeout"))
            try:
                tracer.kill()
            except Exception:
                pass
            sys.exit(3)
        time.sleep(0.002)
    time.sleep(0.02)
    olderr = sys.stderr
    sys.stderr = devnull
    mk = os.open(os.path.join(base, "MARK"), os.O_WRONLY | os.O_CREAT, 0o600)
    out = []
    for n, script in enumerate(scripts):
        work = os.path.join(base, "w%d" % n)
        os.mkdir(work)
        os.chdir(work)
        out.append(run_script(script, mk, n))
    os.write(mk, b"E\n")
    sys.stderr = olderr
    tracer.send_signal(2)
    try:
        tracer.wait(20)
    except Exception:
        tracer.kill()
    json.dump(out, open(out_path, "w"))


CHILD_TAIL = '''
if __name__ == "__main__":
    child_main(sys.argv)
'''


def child_source():
    return ("import ast, json, os, sys\n\n" + "\n\n".join(inspect.getsource(f) for f in (canon, mkjc, view, do_call, run_script, child_main))
            + CHILD_TAIL)


# ---------------------------------------------------------------------------------------------
# generators

def gen_value(r, big=False):
    k = r.randrange(5)
    if big:
        return bytes(r.choice(b"abcdefgh") for _ in range(64)) * r.randrange(130, 260)
    if k == 0:
        return r.choice([b"h1", b"h2", b"\x00\xff\x80", b""])
    if k == 1:
        return [r.choice([b"i1", b"i2"]) for _ in range(r.randrange(3))]
    if k == 2:
        return {r.choice([None, "sub", "a/b"]): (r.choice([b"d1", b"d2"]), r.choice([None, {"scm": "git", "url": "u"}]))}
    if k == 3:
        return (r.choice(["t1", "t2"]), r.randrange(3))
    return r.choice([b"v1", "text", 7, True])


def gen_container(r):
    if r.random() < 0.7:
        return {r.choice([None, "sub", "a/b"]): (r.choice([b"d1", b"d2"]), r.choice([None, {"scm": "git", "url": "u"}]))}
    return [r.choice([b"i1", b"i2"]) for _ in range(r.randrange(3))]


def gen_call(r, held=None, resub=0.0):
    """one API call: m = method, a = arguments for the model (strings), p = python literals for the child.
    held (generator side, values are the generator's OWN deep copies): what the objects handed to the container setters
    in this invocation hold by now; with probability resub the call is "mutate the object handed in last time for this
    (method, path) in place and hand the same object in again"."""
    def S(m, a, p):
        return {"m": m, "a": a, "p": p}
    if held is not None and resub and r.random() < resub:
        if held and r.random() < 0.7:
            key = r.choice(sorted(held))
            m, ptxt = key.split(":", 1)
            val = copy.deepcopy(held[key])
            if isinstance(val, dict):
                nk = r.choice([None, "sub", "a/b", "c"])
                nv = (r.choice([b"d1", b"d2", b"d3"]), r.choice([None, {"scm": "git", "url": "u"}, {"scm": "git", "url": "w"}]))
                if val.get(nk, 0) == nv:
                    nv = (b"d4", None)
                val[nk] = nv
                mut = ["dict", canon(nk), canon(nv)]
            else:
                nv = r.choice([b"i1", b"i2", b"i3"])
                val.append(nv)
                mut = ["list", "None", canon(nv)]
            held[key] = copy.deepcopy(val)
            mp = ast.literal_eval(ptxt)
            c = S(m, [os.path.normpath(mp) if m == "setAtticDirectoryState" else mp, canon(val)], [ptxt, canon(val)])
            c["resub"] = mut
            return c
        m = r.choice(["setDirectoryState", "setDirectoryState", "setLayerState", "setAtticDirectoryState"])
        mp = r.choice(ATTIC_POOL) if m == "setAtticDirectoryState" else r.choice(PATH_POOL)
        v = gen_container(r)
        held[m + ":" + repr(mp)] = copy.deepcopy(v)
        return S(m, [os.path.normpath(mp) if m == "setAtticDirectoryState" else mp, canon(v)], [repr(mp), canon(v)])
    path = r.choice(PATH_POOL)
    k = r.random()
    if k < 0.06:
        return {"m": "setAsync"}
    if k < 0.12:
        return {"m": "setSync"}
    if k < 0.20:
        b, d, src = r.choice(BASE_POOL), r.choice(DIGESTS), r.random() < 0.5
        return S("getByNameDirectory", [b, canon(d), src], [repr(b), canon(d), repr(src)])
    if k < 0.52:
        m = r.choice(["setResultHash", "setInputHashes", "setVariantId", "setLayerState", "setDirectoryState"])
        v = gen_value(r, big=r.random() < 0.04)
        if held is not None and m in ("setLayerState", "setDirectoryState"):
            if isinstance(v, (dict, list)):
                held[m + ":" + repr(path)] = copy.deepcopy(v)
        return S(m, [path, canon(v)], [repr(path), canon(v)])
    if k < 0.62:
        m = r.choice(["delInputHashes", "delLayerState", "delDirectoryState"])
        return S(m, [path], [repr(path)])
    if k < 0.68:
        st = r.choice(PATH_POOL + [path, "/store/" + path])
        return S("setStoragePath", [path, st], [repr(path), repr(st)])
    if k < 0.74:
        ds = None if r.random() < 0.4 else gen_value(r)
        return S("resetWorkspaceState", [path, None if ds is None else canon(ds)], [repr(path), canon(ds)])
    if k < 0.80:
        p = r.choice(ATTIC_POOL)
        if r.random() < 0.6:
            v = gen_value(r)
            if held is not None and isinstance(v, (dict, list)):
                held["setAtticDirectoryState:" + repr(p)] = copy.deepcopy(v)
            return S("setAtticDirectoryState", [os.path.normpath(p), canon(v)], [repr(p), canon(v)])
        p = r.choice(ATTIC_POOL + [os.path.normpath(x) for x in ATTIC_POOL])
        return S("delAtticDirectoryState", [p], [repr(p)])
    if k < 0.86:
        v = {"wasRun": {r.choice(PATH_POOL): (r.choice([b"v1", b"v2"]), r.random() < 0.5)}, "predictedBuidId": {}}
        return S("setBuildState", [canon(v)], [canon(v)])
    j = r.choice(JENKINS)
    m = r.choice(["addJenkins", "addJenkins", "delJenkins", "getJenkinsByNameDirectory", "setJenkinsConfig", "addJenkinsJob",
                  "addJenkinsJob", "delJenkinsJob", "setJenkinsJobConfig"])
    if m in ("addJenkins", "setJenkinsConfig"):
        f = {"url": r.choice(["http://host/x", "https://u:pw@h.example:8443/jenkins/"]), "prefix": r.choice(["", "pre-"]),
             "download": r.random() < 0.5, "roots": r.choice([[], ["root"]]),
             "options": r.choice([{}, {"jobs.policy": "always"}, {"scm.poll": "H * * * *", "shared.quota": "5G"}])}
        return S(m, [j, canon(mkjc(f).dump())], [repr(j), canon(f)])
    if m == "delJenkins":
        return S(m, [j], [repr(j)])
    if m == "getJenkinsByNameDirectory":
        b, d = r.choice(BASE_POOL), r.choice(DIGESTS)
        return S(m, [j, b, canon(d)], [repr(j), repr(b), canon(d)])
    job = r.choice(JOBS)
    if m == "delJenkinsJob":
        return S(m, [j, job], [repr(j), repr(job)])
    v = {"hash": r.choice([b"c1", b"c2"]), "enabled": r.random() < 0.5}
    return S(m, [j, job, canon(v)], [repr(j), repr(job), canon(v)])


RESUB_FIRST = 50   # the first sequences of the stream are dense in "re-submit the same object after an in-place change"


def gen_script(r, max_inv=4, max_calls=12, resub=0.0):
    invs = []
    for _ in range(r.randrange(1, max_inv + 1)):
        calls = []
        depth = 0
        held = {} if resub else None
        for _ in range(r.randrange(4 if resub >= 0.3 else 0, max_calls + 1)):
            c = gen_call(r, held, resub)
            # mostly balanced asynchronous sections; a few sequences keep the unbalanced calls
            if c["m"] == "setSync" and depth == 0 and r.random() < 0.9:
                continue
            depth += {"setAsync": 1, "setSync": -1}.get(c["m"], 0)
            calls.append(c)
        if r.random() < 0.93:
            calls += [{"m": "setSync"}] * max(depth, 0)
        invs.append(calls)
    return {"invocations": invs,
            "universe": {"paths": sorted(set(PATH_POOL + ["/store/" + p for p in PATH_POOL])),
                         "attics": sorted(set(ATTIC_POOL + [os.path.normpath(x) for x in ATTIC_POOL])),
                         "digests": [canon(d) for d in DIGESTS]}}


# ---------------------------------------------------------------------------------------------
# running the child under strace, parsing the trace

SYSCALLS = ("openat,open,creat,write,pwrite64,writev,read,rename,renameat,renameat2,unlink,unlinkat,fsync,fdatasync,"
            "sync_file_range,close,ftruncate,truncate,newfstatat,stat,lstat,access,faccessat,faccessat2,link,linkat,symlink,symlinkat")
LINE = re.compile(r"^(\d+)\s+(\w+)\((.*)\)\s+=\s+(-?\d+|\?)(.*)$")
STR = re.compile(r'"((?:\\x[0-9a-f]{2})*)"(\.\.\.)?')


def _unhex(s):
    return bytes.fromhex(s.replace("\\x", ""))


class TraceError(Exception):
    pass


def strace_available():
    try:
        p = subprocess.run(["strace", "-o", os.devnull, "-e", "trace=write", "true"], stdout=subprocess.PIPE,
                           stderr=subprocess.PIPE, timeout=20)
        return p.returncode == 0
    except Exception:
        return False


def run_children(tmp, repo, scripts, tag):
    """run the scripts on the real _BobState in one child process traced by strace;
    returns [(raw ops with segment labels, child record)] per script"""
    base = os.path.join(tmp, "seq-%s" % tag)
    os.makedirs(base)
    helper = os.path.join(tmp, "c10_child.py")
    if not os.path.exists(helper):
        with open(helper + ".%d" % os.getpid(), "w") as f:
            f.write(child_source())
        os.replace(helper + ".%d" % os.getpid(), helper)
    sp, op, tp = (os.path.join(base, n) for n in ("script.json", "out.json", "trace.txt"))
    json.dump(scripts, open(sp, "w"))
    env = dict(os.environ, PYTHONPATH=os.path.join(repo, "pym"), PYTHONDONTWRITEBYTECODE="1")
    p = subprocess.run([sys.executable, helper, base, sp, op, tp, SYSCALLS], stdout=subprocess.PIPE, stderr=subprocess.PIPE,
                       env=env, timeout=600)
    if p.returncode != 0 or not os.path.exists(op):
        raise TraceError("child failed rc=%s: %s %s" % (p.returncode, p.stdout.decode("utf-8", "replace")[-300:],
                                                         p.stderr.decode("utf-8", "replace")[-600:]))
    recs = json.load(open(op))
    allops = parse_trace(open(tp).read())
    shutil.rmtree(base, ignore_errors=True)
    out = []
    for n, rec in enumerate(recs):
        out.append(([o for o in allops if o["seq"] == n], rec))
    return out


def run_child(tmp, repo, script, tag):
    return run_children(tmp, repo, [script], tag)[0]


def parse_trace(text):
    """-> list of raw ops {"o","n",["to"],["data"],"seg"}; seg = ("I",k) | ("C",k,i) | ("F",k) | None (between markers: getters)"""
    ops = []
    fds = {}
    main = None
    seg = None
    seq = None
    done = False
    fdid = {}
    nopen = 0
    for line in text.splitlines():
        m = LINE.match(line)
        if not m:
            continue
        pid, sc, args, ret, tail = m.groups()
        strs = STR.findall(args)
        if any(t for _, t in strs):
            raise TraceError("truncated string in strace output")
        strs = [_unhex(s).decode("utf-8", "surrogateescape") for s, _ in strs]
        ok = ret not in ("?",) and int(ret) >= 0
        if main is None:
            if sc == "openat" and strs and os.path.basename(strs[0]) == "MARK" and ok:
                main = pid
                fds[int(ret)] = "MARK"
            continue
        if pid != main:
            continue
        name = NAMES.get(os.path.basename(strs[0])) if strs else None

        def add(o, n, **kw):
            d = {"o": o, "n": n, "seg": seg, "seq": seq}
            d.update(kw)
            ops.append(d)
        if sc in ("openat", "open", "creat"):
            path = strs[0]
            if ok:
                nopen += 1
                fds[int(ret)] = path
                fdid[int(ret)] = nopen
            if name is None:
                continue
            flags = args
            if "O_EXCL" in flags and "O_CREAT" in flags:
                add("createExcl", name, failed=not ok, fd=nopen)
            elif "O_CREAT" in flags and not ok:
                add("create", name, failed=True)
            elif "O_TRUNC" in flags or sc == "creat":
                add("openTrunc", name, failed=not ok, fd=nopen)
            elif "O_CREAT" in flags:
                add("create", name, failed=not ok, fd=nopen)
            elif ok:
                # plain open: no effect of its own, binds the descriptor to the file the name denotes now
                add("open", name, fd=nopen)
        elif sc in ("write", "pwrite64", "writev"):
            fd = int(args.split(",", 1)[0])
            path = fds.get(fd)
            if path == "MARK":
                t = strs[0].split()
                if t[0] == "S":
                    seq, seg = int(t[1]), None
                elif t[0] == "E":
                    done = True
                else:
                    seg = {"I": lambda: ("I", int(t[1])), "C": lambda: ("C", int(t[1]), int(t[2])), "F": lambda: ("F", int(t[1])),
                           "V": lambda: None, "X": lambda: None}[t[0]]()
                continue
            n = NAMES.get(os.path.basename(path or ""))
            if n is None:
                continue
            if sc != "write":
                add("unmodelled:" + sc, n)
                continue
            data = _unhex(STR.search(args).group(1))[:max(int(ret), 0)] if ok else b""
            add("write", n, data=data, failed=not ok, fd=fdid.get(fd))
        elif sc == "read":
            fd = int(args.split(",", 1)[0])
            n = NAMES.get(os.path.basename(fds.get(fd) or ""))
            if n is not None:
                add("read", n)
        elif sc in ("fsync", "fdatasync", "sync_file_range"):
            fd = int(args.split(",", 1)[0])
            n = NAMES.get(os.path.basename(fds.get(fd) or ""))
            if n is not None:
                add("fsync", n, failed=not ok, fd=fdid.get(fd))
        elif sc == "close":
            fds.pop(int(args.split(",", 1)[0]), None)
        elif sc in ("rename", "renameat", "renameat2"):
            a, b = NAMES.get(os.path.basename(strs[0])), NAMES.get(os.path.basename(strs[1]))
            add("rename", a or strs[0], to=b or strs[1], failed=not ok)
        elif sc in ("unlink", "unlinkat"):
            add("unlink", name or strs[0], failed=not ok)
        elif sc in ("newfstatat", "stat", "lstat", "access", "faccessat", "faccessat2"):
            if strs and strs[0] and name is not None:
                add("stat", name)
        elif sc in ("ftruncate", "truncate", "link", "linkat", "symlink", "symlinkat"):
            add("unmodelled:" + sc, name or (strs[0] if strs else "?"))
    if main is None:
        raise TraceError("marker file never opened")
    if not done:
        raise TraceError("end marker missing in the trace")
    return ops


# ---------------------------------------------------------------------------------------------
# this file's own POSIX bookkeeping (independent of the Lean model): directory image after a trace prefix

class SimFS:
    """directory image after a trace prefix: names -> file objects [content, synced]; descriptors keep denoting the
    file they were opened on, whatever happens to its name afterwards"""
    def __init__(self):
        self.names = {}
        self.fds = {}

    def apply(self, op):
        if op.get("failed"):
            return
        o, n, fs = op["o"], op["n"], self.names
        if o in ("createExcl", "create"):
            fs.setdefault(n, [b"", False])
            self.fds[op.get("fd")] = fs[n]
        elif o == "openTrunc":
            if n in fs:
                fs[n][0], fs[n][1] = b"", False
            else:
                fs[n] = [b"", False]
            self.fds[op.get("fd")] = fs[n]
        elif o == "open":
            if n in fs:
                self.fds[op.get("fd")] = fs[n]
        elif o == "write":
            f = self.fds.get(op.get("fd"))
            if f is not None:
                f[0], f[1] = f[0] + op["data"], False
        elif o == "fsync":
            f = self.fds.get(op.get("fd"))
            if f is not None:
                f[1] = True
        elif o == "rename":
            if n in fs and n != op["to"]:
                fs[op["to"]] = fs.pop(n)
        elif o == "unlink":
            fs.pop(n, None)

    def items(self):
        return [(n, (f[0], f[1])) for n, f in self.names.items()]


def my_verify(d):
    """the check a reader has to make, written independently of the implementation"""
    return len(d) >= 4 and struct.pack("<I", zlib.adler32(d[:-4]) & 0xffffffff) == d[-4:]


def garblings(r, data, thorough):
    """(label, garbled content) for one unsynced content"""
    n = len(data)
    out = []
    lens = set([0, 3, n // 2, max(n - 1, 0)])
    if thorough:
        lens |= set([1, 2, 4, 5, max(n - 5, 0), max(n - 4, 0)]) | set(range(0, n, max(1, n // 24)))
    for l in sorted(x for x in lens if x < n):
        out.append(("trunc%d" % l, data[:l]))
    if n:
        out.append(("zeros", bytes(n)))
        if thorough:
            out.append(("tailzeros", data[:n // 2] + bytes(n - n // 2)))
        for _ in range(16 if thorough else 1):
            i, b = r.randrange(n), 1 << r.randrange(8)
            out.append(("flip%d.%d" % (i, b), data[:i] + bytes([data[i] ^ b]) + data[i + 1:]))
        out.append(("trailerflip", data[:-1] + bytes([data[-1] ^ 0x10])))
    return out


EMPTY_VIEW = None


def fresh_start(workdir, image, U, keep_lock=False):
    """materialise the image (name -> bytes), start a fresh _BobState, return (outcome, view, listing)"""
    from bob.state import _BobState
    for f in os.listdir(workdir):
        os.unlink(os.path.join(workdir, f))
    for n, d in image.items():
        if n == "lock" and not keep_lock:
            continue
        with open(os.path.join(workdir, PATHS[n]), "wb") as f:
            f.write(d)
    cwd = os.getcwd()
    os.chdir(workdir)
    olderr = sys.stderr
    sys.stderr = open(os.devnull, "w")
    # durability of the scratch image is irrelevant for what the fresh start loads: fsync is a no-op in
    # this (harness) process only; the traced child always runs with the real fsync
    real_fsync = os.fsync
    os.fsync = lambda fd: None
    # a garbled pickle (only reachable when the implementation accepts one) may ask for absurd amounts of memory or time
    import resource
    import signal
    soft, hard = resource.getrlimit(resource.RLIMIT_AS)
    lim = 6 << 30
    resource.setrlimit(resource.RLIMIT_AS, (lim if hard == resource.RLIM_INFINITY else min(lim, hard), hard))

    class _HarnessTimeout(BaseException):
        """raised by the alarm; a harness time-out is a skip, never a verdict about the property"""

    def _timeout(sig, frm):
        raise _HarnessTimeout()

    def _is_to(e):
        return isinstance(e, _HarnessTimeout)

    def _run():
        try:
            s = _BobState()
        except BaseException as e:
            if _is_to(e):
                raise
            return ("error:" + type(e).__name__ + ":" + str(getattr(e, "slogan", e))[:80], None, listing(workdir))
        try:
            try:
                v = view(s, U)
            except BaseException as e:
                if _is_to(e):
                    raise
                return ("error:getters:" + type(e).__name__ + ":" + str(e)[:80], None, listing(workdir))
            files_after_init = listing(workdir)
        finally:
            try:
                s.finalize()
            except BaseException as e:
                if _is_to(e):
                    raise
        # the recovered state must be stable: an invocation that changes nothing, followed by another
        # start, loads the same snapshot again (a rejected uncommitted file must not come back)
        try:
            s2 = _BobState()
        except BaseException as e:
            if _is_to(e):
                raise
            return ("error:second-start:" + type(e).__name__ + ":" + str(getattr(e, "slogan", e))[:80], None, listing(workdir))
        try:
            try:
                v2 = view(s2, U)
            except BaseException as e:
                if _is_to(e):
                    raise
                return ("error:second-start-getters:" + type(e).__name__ + ":" + str(e)[:80], None, listing(workdir))
        finally:
            try:
                s2.finalize()
            except BaseException as e:
                if _is_to(e):
                    raise
        if v2 != v:
            return ("error:second-start-loads-different-state", None, listing(workdir))
        return ("ok", v, files_after_init)

    oldh = signal.signal(signal.SIGALRM, _timeout)
    signal.alarm(120)
    try:
        try:
            return _run()
        except _HarnessTimeout:
            return ("timeout", None, {})
    finally:
        signal.alarm(0)
        signal.signal(signal.SIGALRM, oldh)
        resource.setrlimit(resource.RLIMIT_AS, (soft, hard))
        os.fsync = real_fsync
        sys.stderr.close()
        sys.stderr = olderr
        os.chdir(cwd)


def listing(workdir):
    out = {}
    for f in sorted(os.listdir(workdir)):
        if f in NAMES:
            out[NAMES[f]] = open(os.path.join(workdir, f), "rb").read()
    return out


def empty_view(workdir, U):
    return fresh_start(workdir, {}, U)[1]


def seq_structure(ops, rec):
    """protocol independent bookkeeping from the child's own records: which API call touched the file system
    between which raw op indexes, where invocations start and end.
    events: (index, kind, payload) sorted by index; an event holds once `index` ops were applied
       ("start", inv)            first op of the invocation is applied
       ("begin", inv, call)      first effectful op of an API call is applied: its final state may be recovered
       ("done", inv, call)       all ops of the call are applied: its final state must not be lost by a mere kill
       ("end", inv)              finalize removed the lock: the invocation completed"""
    events = []
    first, last = {}, {}
    started = set()
    for idx, op in enumerate(ops):
        seg = op["seg"]
        if seg is None:
            continue
        seg = tuple(seg)
        if seg[1] not in started:
            started.add(seg[1])
            events.append((idx + 1, "start", seg[1]))
        if op.get("failed") or op["o"] in ("stat", "read", "open"):
            continue
        if seg[0] == "C":
            first.setdefault(seg, idx)
            last[seg] = idx
        if op["o"] == "unlink" and op["n"] == "lock" and seg[0] == "F":
            events.append((idx + 1, "end", seg[1]))
    for seg, idx in first.items():
        events.append((idx + 1, "begin", seg[1:]))
        events.append((last[seg] + 1, "done", seg[1:]))
    order = {"start": 0, "begin": 1, "done": 2, "end": 3}
    events.sort(key=lambda e: (e[0], order[e[1]]))
    return events


def admissible_at(k, events, rec, empty):
    """after the first k raw ops: (state at the end of the last completed invocation, states saved since incl. one being
    saved, newest state whose save completed, state whose save is in progress or None)"""
    base, since, last, progress = empty, [], empty, None
    for at, kind, who in events:
        if at > k:
            break
        if kind == "start":
            if rec[who].get("init") == "ok":
                last = rec[who]["view0"]
        elif kind == "begin":
            progress = rec[who[0]]["calls"][who[1]]["view"]
            since.append(progress)
        elif kind == "done":
            last, progress = rec[who[0]]["calls"][who[1]]["view"], None
        else:
            base, since, progress = last, [], None
    return base, since, last, progress


def crash_worker(job):
    """one batch of sequences: trace them in one child, then replay all crash images of each"""
    tmp, repo, items, btag, thorough, budget_images, want_images = job
    try:
        traced = run_children(tmp, repo, [it[0] for it in items], btag)
    except (TraceError, subprocess.TimeoutExpired) as e:
        return [{"viol": [], "cases": 0, "nontrivial": 0, "hist": {}, "images": [], "traceops": 0,
                 "skip": "strace run failed: %s" % str(e)[:300]} for _ in items]
    return [crash_images(tmp, script, tag, seed, thorough, budget_images, want_images, ops, rec)
            for (script, tag, seed), (ops, rec) in zip(items, traced)]


def crash_images(tmp, script, tag, seed, thorough, budget_images, want_images, ops, rec):
    """all crash images of one sequence; returns {"viol": [...], "cases": n, "hist": {...}, "images": [...]}"""
    import random
    res = {"viol": [], "cases": 0, "nontrivial": 0, "hist": {}, "images": [], "skip": None, "traceops": 0}

    def count(h, k, n=1):
        res["hist"].setdefault(h, {})
        res["hist"][h][k] = res["hist"][h].get(k, 0) + n
    res["ops"], res["rec"] = ops, rec
    res["traceops"] = len(ops)

    class _Viol(list):
        """at most 3 reports per failure signature and sequence"""
        def append(self, v):
            if sum(1 for x in self if x["signature"] == v["signature"]) < 3:
                list.append(self, v)
    res["viol"] = _Viol()
    r = random.Random(seed)
    work = os.path.join(tmp, "img-%s" % tag)
    os.makedirs(work, exist_ok=True)
    U = script["universe"]
    empty = empty_view(work, U)
    events = seq_structure(ops, rec)
    # no-crash persistence: a completed invocation leaves on disk what its getters showed at the end, and the next
    # invocation loads exactly that
    for at, kind, who in events:
        if kind == "end":
            inv = rec[who]
            endview = inv["calls"][-1]["view"] if inv["calls"] else inv.get("view0")
            if endview != admissible_at(at - 1, events, rec, empty)[2]:
                res["viol"].append({"what": "invocation %d completed but its final in-memory state differs from the last state it "
                                            "wrote to the file system" % who,
                                    "case": {"kind": "crash", "script": script, "prefix": at, "garble": "intact"},
                                    "signature": "unsaved-mutation-at-finalize"})
        if kind == "start" and rec[who].get("init") == "ok":
            before = admissible_at(at - 1, events, rec, empty)[2]
            if rec[who]["view0"] != before:
                res["viol"].append({"what": "invocation %d loaded a state different from the one saved before it started" % who,
                                    "case": {"kind": "crash", "script": script, "prefix": at - 1, "garble": "intact"},
                                    "signature": "restart-loads-different-state"})
    fs = SimFS()
    prefixes = list(range(len(ops) + 1))
    images_done = 0
    seen_images = 0
    for k in prefixes:
        if k > 0:
            fs.apply(ops[k - 1])
        if k > 0 and ops[k - 1]["o"] in ("stat", "read", "open"):
            continue    # nothing changed since the previous prefix
        base, since, last, progress = admissible_at(k, events, rec, empty)
        unsynced = {n: c for n, (c, s) in fs.items() if not s and n != "lock"}
        variants = [("intact", {})]
        if unsynced and images_done < budget_images:
            per = {n: garblings(r, c, thorough) for n, c in unsynced.items()}
            # one joint garbling per label class: every unsynced file gets "its" variant of that class
            for i in range(max(len(g) for g in per.values())):
                variants.append(("g%d" % i, {n: g[i % len(g)] for n, g in per.items() if g}))
        for label, gar in variants:
            image = {n: c for n, (c, s) in fs.items()}
            detectable = True
            desc = {}
            for n, (gl, gc) in gar.items():
                image[n] = gc
                desc[n] = gl
                if n == "new" and gc != fs.names[n][0] and my_verify(gc):
                    detectable = False
            if not detectable:
                count("garbling", "undetectable-skipped")
                continue
            outcome, v, after = fresh_start(work, image, U)
            if outcome == "timeout":
                count("outcome", "harness-timeout-skipped")
                continue
            images_done += 1
            res["cases"] += 1
            nontriv = bool(unsynced)
            res["nontrivial"] += nontriv
            count("garbling", "intact" if not gar else re.sub(r"\d+", "", "/".join(sorted(set(desc.values()))))[:40])
            case = {"kind": "crash", "script": script, "prefix": k, "garble": desc or "intact",
                    "image": {n: c.hex() for n, c in image.items() if n != "lock"} if sum(map(len, image.values())) < 6000 else "large"}
            if outcome != "ok":
                count("outcome", "start-error")
                res["viol"].append({"what": "after a crash at trace prefix %d (%s) the next start fails: %s" % (k, desc or "intact", outcome),
                                    "case": case, "signature": "start-fails-after-crash"})
                continue
            if v == last or (progress is not None and v == progress):
                count("outcome", "latest")
            elif v == base:
                count("outcome", "base")
            elif any(v == x for x in since):
                count("outcome", "older-saved-since")
            else:
                count("outcome", "NOT-A-SNAPSHOT")
                res["viol"].append({"what": "after a crash at trace prefix %d (%s) the loaded state is none of the %d admissible snapshots"
                                            % (k, desc or "intact", 1 + len(since)),
                                    "case": case, "signature": "recovered-state-not-admissible"})
                continue
            if not gar and v != last and not (progress is not None and v == progress):
                res["viol"].append({"what": "process kill at trace prefix %d (nothing garbled) lost the newest saved snapshot" % k,
                                    "case": case, "signature": "intact-image-not-latest"})
            if want_images and sum(len(c) for c in image.values()) < 20000:
                # reservoir sample of images for the model-vs-implementation recovery comparison
                seen_images += 1
                img = {"prefix": k, "fs": {n: [c.hex(), s] for n, (c, s) in fs.items()},
                       "garble": {n: gc.hex() for n, (gl, gc) in gar.items()},
                       "after": {n: c.hex() for n, c in after.items()}}
                if len(res["images"]) < want_images:
                    res["images"].append(img)
                elif r.randrange(seen_images) < want_images:
                    res["images"][r.randrange(want_images)] = img
    shutil.rmtree(work, ignore_errors=True)
    res["viol"] = list(res["viol"])
    return res


# ---------------------------------------------------------------------------------------------
# lock oracle

def _race_worker(args):
    workdir, i, n = args
    from bob.state import _BobState
    import time
    os.chdir(workdir)
    sys.stderr = open(os.devnull, "w")

    def wait(prefix, count, timeout):
        t = time.time() + timeout
        while len([f for f in os.listdir(".") if f.startswith(prefix)]) < count:
            if time.time() > t:
                return False
            time.sleep(0.001)
        return True
    open("ready-%d" % i, "w").close()
    if not wait("ready-", n, 10):
        return "timeout"
    try:
        s = _BobState()
    except BaseException as e:
        open("done-%d" % i, "w").close()
        return type(e).__name__
    # the winner keeps the workspace until every competitor has had its try
    wait("done-", n - 1, 10)
    try:
        s.setInputHashes("p%d" % i, b"h")
        s.finalize()
    except BaseException:
        pass    # several winners trample on each other's files
    return "ok"


def lock_oracle(ctx):
    from bob.state import _BobState
    from bob.errors import ParseError
    r = ctx.subrng("lock")
    work = os.path.join(ctx.tmp, "lock")
    os.makedirs(work, exist_ok=True)
    cwd = os.getcwd()
    olderr = sys.stderr
    sys.stderr = open(os.devnull, "w")
    real_fsync = os.fsync
    os.fsync = lambda fd: None      # harness process only, see fresh_start
    try:
        for i in range(ctx.scale(100, 1500)):
            if i >= 40 and ctx.time_left() < ctx.budget * 0.75:
                break
            for f in os.listdir(work):
                os.unlink(os.path.join(work, f))
            os.chdir(work)
            script = gen_script(r, 1, 6)
            calls = script["invocations"][0]
            cut = r.randrange(len(calls) + 1)
            case = {"kind": "lock", "script": script, "cut": cut}
            a = _BobState()
            try:
                for c in calls[:cut]:
                    try:
                        do_call(a, c)
                    except (KeyError, AssertionError):
                        pass
                before = listing(work)
                try:
                    b = _BobState()
                    refused = False
                    try:
                        b.finalize()
                    except BaseException:
                        pass
                except ParseError:
                    refused = True
                except BaseException as e:
                    refused = "other:" + type(e).__name__
                ctx.case(("lock", i, cut), nontrivial=cut > 0)
                ctx.count("lock", "refused" if refused is True else "NOT-refused")
                if refused is not True:
                    ctx.violation("a second _BobState instance started while the first one holds the workspace (%s)" % refused,
                                  case, "second-instance-not-refused")
                    continue
                if listing(work) != before:
                    ctx.violation("the refused second instance changed the workspace state files", case,
                                  "refused-instance-wrote")
                # the first instance goes on and releases the lock at the end
                for c in calls[cut:]:
                    try:
                        do_call(a, c)
                    except (KeyError, AssertionError):
                        pass
            finally:
                try:
                    a.finalize()
                    fin = True
                except AssertionError:
                    fin = False
            if fin and "lock" in listing(work):
                ctx.violation("finalize did not release the lock", case, "lock-not-released")
            if fin:
                try:
                    _BobState().finalize()
                except BaseException as e:
                    ctx.violation("a new instance cannot start after finalize: %s" % type(e).__name__, case, "lock-not-released")
        os.chdir(cwd)
        # racing processes: exactly one wins
        import time
        for i in range(ctx.scale(4, 40)):
            if i and ctx.time_left() < ctx.budget * 0.7:
                break
            for f in os.listdir(work):
                os.unlink(os.path.join(work, f))
            out = ctx.parallel(_race_worker, [(work, j, 6) for j in range(6)], workers=6)
            if "timeout" in out:
                ctx.count("race_winners", "barrier-timeout")
                continue
            ctx.case(("race", i))
            ctx.count("race_winners", out.count("ok"))
            if out.count("ok") != 1:
                ctx.violation("%d of 6 instances started at the same time got the workspace: %r" % (out.count("ok"), out),
                              {"kind": "race", "n": 6}, "second-instance-not-refused")
    finally:
        os.fsync = real_fsync
        sys.stderr.close()
        sys.stderr = olderr
        os.chdir(cwd)


# ---------------------------------------------------------------------------------------------
# oracle / correspondence drivers

def _jobs(ctx, n, tag, want_images=0, batch=2):
    jobs = []
    for b in range(0, n, batch):
        items = []
        for i in range(b, min(n, b + batch)):
            items.append((_script_of(ctx, i, tag), "%s%d" % (tag, i), "%s-%d-%s-%d" % (ctx.prop, ctx.seed, tag, i)))
        jobs.append((ctx.tmp, ctx.repo, items, "%s%d" % (tag, b), ctx.tier == "thorough", ctx.scale(4000, 100000), want_images))
    return jobs


_CACHE = {}


def _sequences(ctx):
    """run all sequences once (oracle and correspondence share the traces)"""
    if "seq" in _CACHE:
        return _CACHE["seq"]
    if sys.byteorder != "little":
        ctx.skip("big-endian host: trailer layout not modelled")
        _CACHE["seq"] = []
        return []
    if not strace_available():
        ctx.skip("strace unavailable: no syscall traces, crash-image replay and trace correspondence not run")
        _CACHE["seq"] = []
        return []
    n = ctx.scale(150, 1200)
    out = []
    # in chunks so that the time budget can stop the stream
    jobs = _jobs(ctx, n, "s", want_images=12)
    import time
    t0 = time.time()
    # rounds sized by the measured rate so that the stream stops at half of the time budget whatever the machine load
    # the first round is mandatory: it holds the RESUB_FIRST sequences dense in in-place re-submissions (2 per job)
    i, chunk = 0, max(8, (RESUB_FIRST + 1) // 2)
    while i < len(jobs):
        left = ctx.time_left() - ctx.budget * 0.5
        if i and left < (time.time() - t0) / i * min(chunk, 4):
            ctx.notes["sequences_cut_by_budget"] = sum(len(j[2]) for j in jobs[:i])
            break
        for batch in ctx.parallel(crash_worker, jobs[i:i + chunk]):
            out += batch
        i += chunk
        rate = (time.time() - t0) / i
        chunk = max(4, min(64, int((ctx.time_left() - ctx.budget * 0.5) / max(rate, 1e-3) * 0.8)))
    ctx.notes["t_sequences_s"] = round(time.time() - t0, 1)
    ctx.notes["sequences"] = len(out)
    _CACHE["seq"] = out
    return out


def saved_files(seqs):
    """distinct contents the implementation wrote as uncommitted state files, from the real traces"""
    out, seen = [], set()
    for s in seqs:
        cur = None
        for op in s.get("ops", []):
            if op["o"] == "openTrunc" and op["n"] == "dirty":
                cur = b""
            elif op["o"] == "write" and op["n"] == "dirty" and cur is not None:
                cur += op["data"]
            elif op["o"] == "rename" and op["n"] == "dirty" and cur is not None:
                h = hashlib.sha1(cur).digest()
                if h not in seen:
                    seen.add(h)
                    out.append(cur)
                cur = None
    return out


def verify_cases(ctx):
    """fresh starts on a directory that holds only an uncommitted file: is it committed?"""
    if "verify" in _CACHE:
        return _CACHE["verify"]
    r = ctx.subrng("verify")
    work = os.path.join(ctx.tmp, "verify")
    os.makedirs(work, exist_ok=True)
    U = {"paths": [], "attics": [], "digests": []}
    out = []
    src = [d for d in saved_files(_sequences(ctx)) if len(d) < 3000][:ctx.scale(60, 600)]
    for d in src:
        gl = garblings(r, d, False) + [("intact", d), ("random", bytes(r.randrange(256) for _ in range(r.randrange(12)))),
                                      ("empty-adler", b"\x01\x00\x00\x00")]
        for label, g in gl:
            outcome, _, after = fresh_start(work, {"new": g}, U)
            if outcome == "timeout":
                continue
            out.append((label, g, "pickle" in after, outcome))
    shutil.rmtree(work, ignore_errors=True)
    _CACHE["verify"] = out
    return out



# ---------------------------------------------------------------------------------------------
# I/O errors: fault injection into real `_BobState` runs (child process), oracle and correspondence

FAULT_SIG_UNREADABLE = "F-C10-3-unverified-commit-after-failed-discard"


def fault_child_main(argv):
    """argv: base directory, histories file, output file.  Runs every history on the real _BobState with OSErrors
    injected at the planned file-system call of the planned step, then (faults off, stale lock removed) a fresh
    start, one more successful save + finalize, and another start."""
    import builtins
    import errno
    base, hist_path, out_path = argv[1:4]
    hists = json.load(open(hist_path))
    import urllib.parse  # noqa
    import bob.state
    from bob.state import _BobState
    real_open, real_fsync, real_unlink, real_stat, real_osopen, real_replace = \
        builtins.open, os.fsync, os.unlink, os.stat, os.open, os.replace
    plan = {}
    hits = []

    def err(site):
        e = plan.get(site)
        if e:
            hits.append(site)
            raise OSError(getattr(errno, e), os.strerror(getattr(errno, e)))

    class WProxy:
        def __init__(self, f):
            self.f, self.n = f, 0

        def write(self, data):
            self.n += 1
            mode = plan.get("save.write")
            if mode and (mode[1] == "first" or len(data) == 4):
                if mode[1] == "first" and self.n == 1:
                    self.f.write(data[:3])
                hits.append("save.write")
                raise OSError(getattr(errno, mode[0]), os.strerror(getattr(errno, mode[0])))
            return self.f.write(data)

        def __enter__(self):
            return self

        def __exit__(self, *a):
            self.f.close()
            return False

        def __getattr__(self, k):
            return getattr(self.f, k)

    class RProxy(WProxy):
        def read(self, *a):
            err("commit.read")
            return self.f.read(*a)

    def p_open(path, mode="r", *a, **kw):
        b = os.path.basename(str(path)) if isinstance(path, (str, bytes, os.PathLike)) else ""
        if b == ".bob-state.pickle.new.dirty" and "w" in mode:
            err("save.open")
            f = real_open(path, mode, *a, **kw)
            return WProxy(f) if "save.write" in plan else f
        if b == ".bob-state.pickle.new" and mode == "r+b":
            err("commit.open")
            f = real_open(path, mode, *a, **kw)
            return RProxy(f) if "commit.read" in plan else f
        if b == ".bob-state.pickle" and mode == "rb":
            err("load.open")
        return real_open(path, mode, *a, **kw)

    def p_fsync(fd):
        # durability is tracked by the model only; the real fsync is skipped in this child (speed)
        err("commit.fsync")
        return None

    def p_replace(src, dst):
        if str(src).endswith(".dirty"):
            err("save.rename")
        elif str(src).endswith(".new"):
            err("commit.rename")
        return real_replace(src, dst)

    def p_unlink(path, *a, **kw):
        if str(path).endswith(".pickle.new"):
            err("commit.unlink")
        elif str(path).endswith(".bob-state.lock"):
            err("unlock")
        return real_unlink(path, *a, **kw)

    def p_stat(path, *a, **kw):
        if plan and isinstance(path, str) and path.endswith(".pickle.new"):
            err("commit.stat")
        return real_stat(path, *a, **kw)

    def p_osopen(path, flags, *a, **kw):
        if isinstance(path, str) and path.endswith(".bob-state.lock"):
            err("lock.open")
        return real_osopen(path, flags, *a, **kw)

    builtins.open, os.fsync, os.unlink, os.stat, os.open = p_open, p_fsync, p_unlink, p_stat, p_osopen
    bob.state.replacePath = p_replace

    def files():
        out = {}
        for f in sorted(os.listdir(".")):
            if f.startswith(".bob-state"):
                out[f] = real_open(f, "rb").read().hex()
        return out

    def step(faults, fn):
        plan.clear()
        plan.update(faults or {})
        del hits[:]
        try:
            fn()
            exc = None
        except BaseException as e:  # noqa
            exc = type(e).__name__ + ":" + str(getattr(e, "slogan", ""))[:40]
        plan.clear()
        return {"exc": exc, "files": files(), "hits": list(hits)}

    devnull = real_open(os.devnull, "w")
    olderr, oldout = sys.stderr, sys.stdout
    sys.stderr = sys.stdout = devnull
    results = []
    for n, h in enumerate(hists):
        work = os.path.join(base, "f%d" % n)
        os.mkdir(work)
        os.chdir(work)
        U = h["universe"]
        res = {"sessions": [], "views": []}
        box = {}
        for sess in h["sessions"]:
            rec = {"calls": []}
            res["sessions"].append(rec)

            def do_init():
                box["s"] = None
                box["s"] = _BobState()
            rec["init"] = step(sess.get("init_plan"), do_init)
            s = box["s"]
            if rec["init"]["exc"] is not None or s is None:
                continue
            res["views"].append(view(s, U))
            calls = sess["calls"]
            if sess.get("crash"):
                calls = calls[:sess["crash"]["cut_calls"]]
            for c in calls:
                r = step(c.get("plan"), lambda: do_call(s, c))
                res["views"].append(view(s, U))
                rec["calls"].append(r)
            if sess.get("crash"):
                g = sess["crash"].get("garble")
                if g is not None and os.path.exists(".bob-state.pickle.new"):
                    with real_open(".bob-state.pickle.new", "wb") as f:
                        f.write(bytes.fromhex(g))
                if os.path.exists(".bob-state.lock"):
                    real_unlink(".bob-state.lock")
                rec["crashed"] = files()
            else:
                rec["fin"] = step(sess.get("fin_plan"), s.finalize)
        # --- afterwards: fresh start without faults
        plan.clear()
        if os.path.exists(".bob-state.lock"):
            real_unlink(".bob-state.lock")
        res["before_fresh"] = files()
        try:
            s = _BobState()
            res["fresh"] = {"exc": None, "view": view(s, U), "files": files()}
            s.setResultHash("work/zz/9", b"later")
            v1 = view(s, U)
            s.finalize()
            s2 = _BobState()
            v2 = view(s2, U)
            s2.finalize()
            res["later"] = {"ok": v1 == v2 and s2.getResultHash("work/zz/9") == b"later"}
        except BaseException as e:  # noqa
            res.setdefault("fresh", {"exc": type(e).__name__ + ":" + str(getattr(e, "slogan", e))[:80]})
            if res["fresh"].get("exc") is None:
                res["later"] = {"ok": False, "exc": type(e).__name__ + ":" + str(getattr(e, "slogan", e))[:80]}
        results.append(res)
    sys.stderr, sys.stdout = olderr, oldout
    builtins.open = real_open
    json.dump(results, real_open(out_path, "w"))


FAULT_CHILD_TAIL = """
if __name__ == "__main__":
    fault_child_main(sys.argv)
"""


def fault_child_source():
    return ("import ast, json, os, sys\n\n" + "\n\n".join(inspect.getsource(f) for f in (canon, mkjc, view, do_call, fault_child_main))
            + FAULT_CHILD_TAIL)


def _cf_plan(cf, errno_name):
    p = {}
    if cf.get("pos"):
        p["commit." + cf["pos"]] = errno_name
    if cf.get("unlinkFails"):
        p["commit.unlink"] = errno_name
    return p


def gen_fault_history(r, full=False):
    """sessions of API calls with I/O errors and crashes.  `full`: also the start-up faults outside `StartOK`
    (exists() of the uncommitted file fails / the unlink of a rejected uncommitted file fails)."""
    base = gen_script(r, max_inv=4, max_calls=8)
    if full and r.random() < 0.4:
        # the shape that needs several things at once: a completed invocation, a crash that garbles the uncommitted
        # file, a start-up whose discard of the rejected file is obstructed, no save in that invocation
        e = r.choice(["ENOSPC", "EIO"])
        cf = r.choice([{"pos": None, "unlinkFails": True}, {"pos": "stat", "unlinkFails": False},
                       {"pos": "open", "unlinkFails": True}])
        mk = lambda k, v: {"m": "setResultHash", "a": [k, canon(v)], "p": [repr(k), canon(v)]}  # noqa
        pre = [c for c in base["invocations"][0] if c["m"] not in ("setAsync", "setSync")][:3]
        s1 = {"calls": pre + [mk("work/a/1", b"one")], "init": {}, "fin": {}, "init_plan": {}, "fin_plan": {}}
        s2 = {"calls": [mk("work/a/1", b"two"), mk("work/b/1", b"x")], "init": {}, "fin": {}, "init_plan": {}, "fin_plan": {},
              "crash": {"cut_calls": r.choice([1, 2]), "garble": r.choice(["", "000000", "00" * 40])}}
        s3 = {"calls": r.choice([[], [mk("work/a/1", b"one")]]), "init": {"commit": cf}, "fin": {},
              "init_plan": _cf_plan(cf, e), "fin_plan": {}}
        return {"sessions": [s1, s2, s3], "universe": base["universe"]}
    sessions = []
    for calls in base["invocations"]:
        e = r.choice(["ENOSPC", "EIO"])
        depth = 0
        cs = []
        for c in calls:
            depth += {"setAsync": 1, "setSync": -1}.get(c["m"], 0)
            if depth < 0:
                depth = 0
                continue
            c = dict(c)
            if r.random() < 0.3 and c["m"] not in ("setAsync",):
                k = r.choice(["open", "write1", "write2", "rename"])
                if k == "open":
                    c["fault"], c["plan"] = "open", {"save.open": e}
                elif k == "rename":
                    c["fault"], c["plan"] = "rename", {"save.rename": e}
                else:
                    c["fault"], c["plan"] = {"write": 3}, {"save.write": [e, "first" if k == "write1" else "last"]}
            cs.append(c)
        cs += [{"m": "setSync"}] * depth
        sess = {"calls": cs, "init": {}, "fin": {}}
        if r.random() < 0.35:
            k = r.random()
            if k < 0.12:
                sess["init"]["lock"] = True
            elif k < 0.24:
                sess["init"]["load"] = True
            else:
                poss = ["open", "read", "fsync", "rename"] + (["stat"] if full else [])
                cf = {"pos": r.choice(poss + [None] if full else poss), "unlinkFails": bool(full and r.random() < 0.6)}
                sess["init"]["commit"] = cf
        if r.random() < 0.4:
            cf = {"pos": r.choice(["stat", "open", "fsync", "rename", None]), "unlinkFails": r.random() < 0.3}
            sess["fin"] = {"commit": cf, "unlock": r.random() < 0.15}
        ip = _cf_plan(sess["init"].get("commit", {}), e)
        if sess["init"].get("lock"):
            ip["lock.open"] = e
        if sess["init"].get("load"):
            ip["load.open"] = e
        sess["init_plan"] = ip
        fp = _cf_plan(sess["fin"].get("commit", {}), e)
        if sess["fin"].get("unlock"):
            fp["unlock"] = e
        sess["fin_plan"] = fp
        if r.random() < 0.35:
            sess["crash"] = {"cut_calls": r.randrange(len(cs) + 1),
                             "garble": r.choice([None, "", "000000", "00" * 40])}
        sessions.append(sess)
    return {"sessions": sessions, "universe": base["universe"]}


def run_fault_children(tmp, repo, hists, tag, timeout=120):
    d = os.path.join(tmp, "fault-" + tag)
    os.makedirs(d, exist_ok=True)
    helper = os.path.join(d, "fchild.py")
    with open(helper, "w") as f:
        f.write(fault_child_source())
    hp, op = os.path.join(d, "hists.json"), os.path.join(d, "out.json")
    json.dump(hists, open(hp, "w"))
    env = dict(os.environ, PYTHONPATH=os.path.join(repo, "pym"))
    try:
        p = subprocess.run([sys.executable, helper, d, hp, op], env=env, stdout=subprocess.PIPE, stderr=subprocess.PIPE,
                           timeout=timeout)
    except subprocess.TimeoutExpired:
        return None, "fault child: time-out"
    if p.returncode != 0 or not os.path.exists(op):
        return None, "fault child failed: " + p.stderr.decode("utf-8", "replace")[-300:]
    return json.load(open(op)), None


def _fault_batch_worker(job):
    tmp, repo, part, tag = job
    return run_fault_children(tmp, repo, part, tag)


def _fault_runs(ctx):
    """(history, result) pairs, cached: the oracle and the correspondence look at the same runs"""
    if "fault" in _CACHE:
        return _CACHE["fault"]
    n = ctx.scale(150, 6000)
    hists = [gen_fault_history(ctx.subrng("fault", i)) for i in range(n)]
    # the start-up faults outside StartOK (full fault model) are generated separately
    nfull = ctx.scale(60, 2000)
    hists_full = [gen_fault_history(ctx.subrng("fault-full", i), full=True) for i in range(nfull)]
    out = {"ok": [], "full": [], "skip": None}
    B = 15
    for key, hs in (("ok", hists), ("full", hists_full)):
        if ctx.out_of_time():
            out["skip"] = "fault runs: out of time"
            break
        jobs = [(ctx.tmp, ctx.repo, hs[a:a + B], "%s-%d" % (key, a)) for a in range(0, len(hs), B)]
        for (tmp, repo, part, tag), (res, why) in zip(jobs, ctx.parallel(_fault_batch_worker, jobs)):
            if res is None:
                out["skip"] = why
                continue
            out[key] += list(zip(part, res))
    _CACHE["fault"] = out
    return out


def fault_check_one(h, res):
    """the property's wording on one faulty history of the implementation: the state a later start loads is one
    of the snapshots (in-memory states after the start or after some attempted API call, or the empty state),
    never unreadable; a later successful save is durable.  Returns (what, signature) or None."""
    fr = res.get("fresh", {})
    if fr.get("exc") is not None:
        return ("after a history of I/O errors and crashes the next start fails: %s" % fr["exc"], "unreadable")
    allowed = res["views"]
    if fr["view"] not in allowed and fr["view"] != res.get("empty_view"):
        return ("after a history of I/O errors and crashes the next start loads a state that is no snapshot", "non-snapshot")
    if not res.get("later", {}).get("ok"):
        return ("a successful save + finalize after a history of I/O errors is not what the next start loads", "later-save-lost")
    # an invocation in which no call and no step reported an error and no commit fault was injected is durable
    last, lres = h["sessions"][-1], res["sessions"][-1]
    if not last.get("crash") and "fin" in lres and lres["init"]["exc"] is None and lres["fin"]["exc"] is None \
            and not any(x.startswith("commit.") for x in lres["init"]["hits"] + lres["fin"]["hits"]) \
            and all(c["exc"] is None for c in lres["calls"]) and res["views"] and fr["view"] != res["views"][-1]:
        return ("every call and finalize of the last invocation returned without error, yet the next start does not load "
                "its final state (an I/O error was swallowed)", "silent-loss")
    return None


def _uses_unverified_commit(h):
    """does the history contain the ingredients of F-C10-3: a start-up whose discard is obstructed"""
    return any(s["init"].get("commit", {}).get("unlinkFails") or s["init"].get("commit", {}).get("pos") == "stat"
               for s in h["sessions"])


def fault_oracle(ctx):
    import time
    t0 = time.time()
    runs = _fault_runs(ctx)
    if runs["skip"]:
        ctx.skip(runs["skip"])
    ev = None
    for key in ("ok", "full"):
        for i, (h, res) in enumerate(runs[key]):
            if ev is None:
                ev = empty_view(os.path.join(ctx.tmp), h["universe"]) if False else None
            res["empty_view"] = _empty_view_cached(ctx, h["universe"])
            nfaults = sum(len(r.get("hits", [])) for s in res["sessions"] for r in [s.get("init", {})] + s.get("calls", []) + [s.get("fin", {})])
            ctx.case(("fault", key, i), nontrivial=nfaults > 0,
                     sample={"sessions": [[c["m"] + ("!" + str(c.get("fault")) if c.get("fault") else "") for c in s["calls"]]
                                          for s in h["sessions"]], "faults_hit": nfaults} if i < 2 else None)
            for s in res["sessions"]:
                for r in [s.get("init", {})] + s.get("calls", []) + [s.get("fin", {})]:
                    for site in r.get("hits", []):
                        ctx.count("fault_sites_hit", site)
            bad = fault_check_one(h, res)
            ctx.count("fault_oracle", "ok" if bad is None else bad[1])
            if bad is None:
                continue
            what, kind = bad
            case = {"kind": "fault", "history": h}
            if kind == "unreadable" and _uses_unverified_commit(h):
                # F-C10-3 (fixed in /repo by 99181a7): a rejected uncommitted file that could not be deleted at start-up
                # is committed unverified by finalize
                ctx.violation(what + " (a rejected uncommitted file that could not be deleted is committed unverified by finalize)",
                              case, FAULT_SIG_UNREADABLE)
                continue
            ctx.violation(what, case, "fault-" + kind)
    ctx.notes["t_fault_oracle_s"] = round(time.time() - t0, 1)


def _empty_view_cached(ctx, U):
    if "empty_view" not in _CACHE:
        d = os.path.join(ctx.tmp, "emptyview")
        os.makedirs(d, exist_ok=True)
        _CACHE["empty_view"] = fresh_start(d, {}, U)[1]
    return _CACHE["empty_view"]


def _real_snap(hexdata):
    import pickle
    data = bytes.fromhex(hexdata)
    try:
        if not my_verify(data):
            return "unverified"
        return snap_of_state(pickle.loads(data[:-4]))
    except Exception:  # noqa
        return "undecodable"


def _model_snap(f):
    d = f["data"]
    if "snap" in d and d.get("verifies"):
        return d["snap"]
    return "unverified" if "snap" in d or "undecodable" in d else "undecodable"


def _cmp_files(real, model):
    """names present; decoded content of the committed and the uncommitted file"""
    r = {NAMES[k]: (_real_snap(v) if NAMES[k] in ("pickle", "new") else None) for k, v in real.items() if k in NAMES}
    m = {k: (_model_snap(v) if k in ("pickle", "new") else None) for k, v in model.items()}
    for d in (r, m):
        for k in d:
            if d[k] == "undecodable":
                d[k] = "unverified"
    return r, m


def _exc_code(exc):
    if exc is None or exc.startswith("KeyError"):
        return 0
    if exc.startswith("AssertionError"):
        return 1
    if exc.startswith("ParseError"):
        return 2
    return exc


def fault_correspond(ctx):
    import time
    t0 = time.time()
    runs = _fault_runs(ctx)
    pairs = [(k, i, h, res) for k in ("ok", "full") for i, (h, res) in enumerate(runs[k])]
    if not pairs:
        return
    REL = "real _BobState under injected OSErrors == Model.StateFS faulty machine (exception kind, files after every step, fresh start)"

    def msess(s):
        d = {"init": s["init"], "fin": s["fin"],
             "calls": [dict(model_call(c), **({"fault": c["fault"]} if c.get("fault") else {})) for c in s["calls"]]}
        if s.get("crash"):
            g = s["crash"].get("garble")
            d["crash"] = {"cut_calls": s["crash"]["cut_calls"], "garble": {} if g is None else {"new": g}}
        return d
    reqs = [{"op": "runF", "sessions": [msess(s) for s in h["sessions"]]} for _, _, h, _ in pairs]
    replies = ctx.lean(DRIVER, reqs)
    for (key, i, h, res), rep in zip(pairs, replies):
        case = {"kind": "fault", "history": h}
        ok = True
        steps = 0
        for si, (rs, ms) in enumerate(zip(res["sessions"], rep["sessions"])):
            ri, mi = rs["init"], ms["init"]
            rres = "ok" if ri["exc"] is None else ("locked" if "locked" in ri["exc"] else
                                                   "loadIO" if "Error loading" in ri["exc"] else "error")
            mres = mi["res"] if mi["res"] in ("ok", "locked", "loadIO") else "error"
            a, b = _cmp_files(ri["files"], mi["files"])
            if (rres, a) != (mres, b):
                ctx.disagree(REL, dict(case, at=["init", si]), [rres, a], [mres, b])
                ok = False
                break
            steps += 1
            if rres != "ok":
                continue
            bad = False
            for ci, (rc, mc) in enumerate(zip(rs["calls"], ms.get("calls", []))):
                a, b = _cmp_files(rc["files"], mc["files"])
                ra, mb = _exc_code(rc["exc"]), mc["raised"]
                if (ra, a) != (mb, b):
                    ctx.disagree(REL, dict(case, at=["call", si, ci]), [ra, a], [mb, b])
                    bad = True
                    break
                steps += 1
                ctx.count("fault_call_outcome", {0: "returns", 1: "AssertionError", 2: "ParseError"}.get(mb, "other"))
            if bad:
                ok = False
                break
            if "crashed" in rs:
                a, b = _cmp_files(rs["crashed"], ms.get("crashed", {}))
            else:
                a, b = _cmp_files(rs["fin"]["files"], ms["fin"]["files"])
                rfa = rs["fin"]["exc"] is not None and rs["fin"]["exc"].startswith("AssertionError")
                if rfa != ms["fin"]["raised"]:
                    a = [rs["fin"]["exc"], a]
                    b = [ms["fin"]["raised"], b]
            if a != b:
                ctx.disagree(REL, dict(case, at=["end", si]), a, b)
                ok = False
                break
            steps += 1
        if not ok:
            continue
        # what a fault-free start loads afterwards
        fr = res.get("fresh", {})
        mfr = rep["fresh"]
        if fr.get("exc") is not None:
            real = "error"
        else:
            pk = fr["files"].get(".bob-state.pickle")
            real = None if pk is None else _real_snap(pk)
        model = "error" if mfr["res"] != "ok" else mfr["loaded"]
        if real != model:
            ctx.disagree(REL, dict(case, at=["fresh"]), real, model)
            continue
        ctx.case(("fault-corr", key, i), nontrivial=steps > 2)
        ctx.count("fault_fresh", "error" if model == "error" else ("empty" if model is None else "snapshot"))
    ctx.notes["t_fault_correspond_s"] = round(time.time() - t0, 1)


def oracle(ctx):
    import time
    t0 = time.time()
    lock_oracle(ctx)
    ctx.notes["t_lock_s"] = round(time.time() - t0, 1)
    seqs = _sequences(ctx)
    for i, res in enumerate(seqs):
        if res["skip"]:
            ctx.skip(res["skip"])
            continue
        for j in range(res["cases"]):
            ctx.case(("img", i, j), nontrivial=j < res["nontrivial"],
                     sample={"sequence": [[c["m"] for c in inv] for inv in _script_of(ctx, i)["invocations"]],
                             "trace_ops": res["traceops"], "crash_images": res["cases"]} if j == 0 and i < 2 else None)
        for h, d in res["hist"].items():
            for k, v in d.items():
                ctx.count(h, k, v)
        for v in res["viol"]:
            ctx.violation(v["what"], v["case"], v["signature"])
    import time
    t0 = time.time()
    for label, g, committed, outcome in verify_cases(ctx):
        ctx.case(("verify-impl", g[:64], len(g)))
        # layout independent expectations: what the implementation wrote itself is committed; a single changed byte,
        # a file shorter than the trailer and a zero-filled file are discarded (the classes proved Detectable)
        want = True if label == "intact" else \
            False if (label.startswith("flip") or label in ("trailerflip", "zeros") or len(g) < 4) else None
        ctx.count("verify_expectation", {True: "commit", False: "discard", None: "none"}[want])
        if want is not None and want != committed:
            ctx.violation("a fresh start %s an uncommitted file that %s (%s)" %
                          ("commits" if committed else "discards",
                           "is exactly what the implementation saved" if want else "is a detectably garbled saved file", label),
                          {"kind": "verify", "hex": g.hex(), "want": want}, "verify-decision-wrong")
    ctx.notes["t_verify_s"] = round(time.time() - t0, 1)
    fault_oracle(ctx)


def _script_of(ctx, i, tag="s"):
    return gen_script(ctx.subrng(tag, i), resub=0.45 if (tag == "s" and i < RESUB_FIRST) else 0.06)


def norm_ops(ops):
    """raw ops of one segment -> the vocabulary of the model (consecutive writes / reads merged)"""
    out = []
    for op in ops:
        o = op["o"]
        if o == "open":
            continue
        if op.get("failed") and o != "createExcl":
            out.append({"o": o + ":failed", "n": op["n"]})
            continue
        if o == "write":
            if out and out[-1]["o"] == "append" and out[-1]["n"] == op["n"]:
                out[-1]["data"] += op["data"]
            else:
                out.append({"o": "append", "n": op["n"], "data": op["data"]})
        elif o == "read":
            if not (out and out[-1]["o"] == "read" and out[-1]["n"] == op["n"]):
                out.append({"o": "read", "n": op["n"]})
        elif o == "rename":
            out.append({"o": "rename", "n": op["n"], "to": op["to"]})
        else:
            out.append({"o": o, "n": op["n"]})
    return out


def snap_of_state(st):
    """the unpickled state dictionary in the shape of the model's `St`"""
    import pickle  # noqa
    bn = st["byNameDirs"]
    return {
        "counters": {k: v for k, v in bn.items() if isinstance(v, int)},
        "dirs": {canon(k): [v[0], bool(v[1])] for k, v in bn.items() if not isinstance(v, int)},
        "results": {k: canon(v) for k, v in st["results"].items()},
        "inputs": {k: canon(v) for k, v in st["inputs"].items()},
        "jenkins": {k: {"config": canon(v["config"]), "jobs": {a: canon(b) for a, b in v["jobs"].items()},
                        "counters": {a: b for a, b in v.get("byNameDirs", {}).items() if isinstance(b, int)},
                        "dirs": {canon(a): b for a, b in v.get("byNameDirs", {}).items() if not isinstance(b, int)}}
                    for k, v in st["jenkins"].items()},
        "dirStates": {k: canon(v) for k, v in st["dirStates"].items()},
        "layerStates": {k: canon(v) for k, v in st["layerStates"].items()},
        "buildState": canon(st["buildState"]),
        "variantIds": {k: canon(v) for k, v in st["variantIds"].items()},
        "atticDirs": {k: canon(v) for k, v in st["atticDirs"].items()},
        "createdWithVersion": st["createdWithVersion"],
        "storagePath": {k: v for k, v in st["storagePath"].items()},
    }


def model_call(c):
    return {"m": c["m"], "a": c.get("a", [])}


def compare_segment(ctx, rel, case, real, model, encs):
    """real: normalised ops (bytes in data); model: ops of the driver; returns True when equal"""
    import pickle
    rs, ms = [], []
    for op in real:
        d = {k: v for k, v in op.items() if k != "data"}
        if "data" in op:
            data = op["data"]
            try:
                st = pickle.loads(data[:-4])
                d["snap"], d["version"] = snap_of_state(st), st["version"]
                if sorted(st) != sorted(_consts_keys(ctx)):
                    d["keys"] = sorted(st)
            except Exception as e:  # noqa
                d["snap"] = "undecodable:" + type(e).__name__
            encs.append((data, case))
        rs.append(d)
    for op in model:
        d = {k: v for k, v in op.items() if k != "data"}
        if "data" in op:
            dd = op["data"]
            d["snap"], d["version"] = dd.get("snap"), dd.get("version")
            if not dd.get("verifies"):
                d["verifies"] = False
        ms.append(d)
    if rs != ms:
        ctx.disagree(rel, case, rs, ms)
        return False
    return True


def _consts_keys(ctx):
    if "keys" not in _CACHE:
        sys.path.insert(0, os.path.join(os.path.dirname(os.path.dirname(os.path.dirname(os.path.abspath(__file__)))), "tools"))
        from consts import c10 as cc
        src = cc.extract(ctx.repo)
        m = re.search(r"def stateKeys : List String := \[(.*)\]", src)
        _CACHE["keys"] = re.findall(r'"([^"]*)"', m.group(1))
    return _CACHE["keys"]


def correspond(ctx):
    import time
    t0 = time.time()
    try:
        _correspond(ctx)
        fault_correspond(ctx)
    finally:
        ctx.notes["t_correspond_s"] = round(time.time() - t0, 1)


def _correspond(ctx):
    seqs = _sequences(ctx)
    live = [(i, s) for i, s in enumerate(seqs) if not s["skip"] and "ops" in s]
    if not live:
        return
    names = ctx.lean(DRIVER, [{"op": "names"}])[0]
    if names != {v: k for k, v in NAMES.items()}:
        ctx.disagree("file names of the model == file names used by the harness", {}, PATHS, names)
    # ---- R1: trace of every API call
    reqs = [{"op": "run", "invocations": [[model_call(c) for c in inv] for inv in _script_of(ctx, i)["invocations"]]}
            for i, _ in live]
    replies = ctx.lean(DRIVER, reqs)
    encs = []
    REL = "strace(_BobState API call) == ops of Model.StateFS (initRun/callStep/finalizeEvs)"
    for (i, s), rep in zip(live, replies):
        script = _script_of(ctx, i)
        ops, rec = s["ops"], s["rec"]
        seg_ops = {}
        stray = []
        for op in ops:
            if op["seg"] is None:
                stray.append(op)
            else:
                seg_ops.setdefault(tuple(op["seg"]), []).append(op)
        if stray:
            ctx.disagree("getters perform no file system operation", {"seq": i, "script": script},
                         [{k: v for k, v in o.items() if k != "data"} for o in stray[:5]], [])
        for k, (inv, minv, r) in enumerate(zip(script["invocations"], rep["invocations"], rec)):
            case = {"seq": i, "invocation": k, "script": script}
            # init
            real = norm_ops(seg_ops.get(("I", k), []))
            ok = compare_segment(ctx, REL, dict(case, phase="init"), real, minv["init"]["ops"], encs)
            ri = "ok" if r["init"] == "ok" else ("locked" if "locked" in r["init"] else r["init"])
            if ri != minv["init"]["res"]:
                ctx.disagree("result of _BobState() == initRun.res", dict(case, phase="init"), ri, minv["init"]["res"])
            ctx.case(("init", i, k), nontrivial=True)
            ctx.count("init", ri if ri in ("ok", "locked") else "error")
            if ri != "ok" or "calls" not in minv:
                continue
            for j, (c, rc, mc) in enumerate(zip(inv, r["calls"], minv["calls"])):
                real = norm_ops(seg_ops.get(("C", k, j), []))
                ccase = dict(case, call=j, m=c["m"])
                compare_segment(ctx, REL, ccase, real, mc["ops"], encs)
                ctx.case(("call", i, k, j), nontrivial=bool(real),
                         sample={"call": c["m"], "args": c.get("a"), "ops": [o["o"] + " " + o["n"] for o in real]} if real else None)
                ctx.count("call", c["m"] + (":save" if real else ":nosave"))
                # return value / exception
                if "exc" in rc:
                    impl = "AssertionError" if rc["exc"] == "AssertionError" else rc["exc"]
                    mod = "AssertionError" if mc["raised"] else ("KeyError" if mc["ret"] == "KeyError" else "none")
                else:
                    impl = rc["ret"]
                    mod = "AssertionError" if mc["raised"] else (mc["ret"]["str"] if isinstance(mc["ret"], dict) else mc["ret"])
                if impl != mod:
                    ctx.disagree("return value / exception of the API call == model", ccase, impl, mod)
                if "exc" in rc:
                    ctx.count("exception", rc["exc"])
            real = norm_ops(seg_ops.get(("F", k), []))
            compare_segment(ctx, REL, dict(case, phase="finalize"), real, minv["fin"]["ops"], encs)
            if (r.get("fin") == "AssertionError") != bool(minv["fin"]["raised"]):
                ctx.disagree("finalize assertion == model", dict(case, phase="finalize"), r.get("fin"), minv["fin"]["raised"])
            ctx.case(("fin", i, k))
            ctx.count("finalize", r.get("fin"))
        ctx.trace_validated(1)
    # ---- the trailer, bit exact, and verify on garbled files (R2)
    r = ctx.subrng("verify")
    ereqs, ewant, ecase = [], [], []
    seen = set()
    for data, case in encs:
        h = hashlib.sha1(data).digest()
        if h in seen or len(data) > 60000:
            continue
        seen.add(h)
        ereqs.append({"op": "enc", "hex": data[:-4].hex()})
        ewant.append({"hex": data.hex()})
        ecase.append(("enc", case))
        if len(ereqs) > ctx.scale(1500, 20000):
            break
    for label, g, committed, outcome in verify_cases(ctx):
        ereqs.append({"op": "verify", "hex": g.hex()})
        ewant.append({"ok": committed})
        ecase.append(("verify", {"label": label, "hex": g.hex() if len(g) < 400 else "large", "start": outcome}))
    for req, want, (kind, case), got in zip(ereqs, ewant, ecase, ctx.lean(DRIVER, ereqs) if ereqs else []):
        ctx.case((kind, req["hex"][:64], len(req["hex"])), nontrivial=True)
        ctx.count("bytes", kind + (":" + str(want.get("ok")) if kind == "verify" else ""))
        if got != want:
            ctx.disagree("enc/verify of the model == bytes written / commit decision of the implementation (%s)" % kind,
                         case if kind == "verify" else {"seq": case.get("seq"), "call": case.get("call")}, want, got)
    ctx.trace_validated(len(ereqs))
    # ---- R3: recover + init of the model on real crash images
    import pickle
    rreqs, rwant, rcase = [], [], []
    if ctx.time_left() < 5:
        ctx.skip("correspondence R3/R4 (recovery of crash images, version window): out of time")
        return
    for i, s in live:
        table, views = [], []
        # every distinct content ever written with its decoded view comes from the images themselves
        for img in s["images"]:
            contents = [bytes.fromhex(c) for c, _ in img["fs"].values()] + [bytes.fromhex(c) for c in img["after"].values()]
            for cbytes in contents:
                if my_verify(cbytes) and cbytes[:-4] not in [t for t, _ in table]:
                    try:
                        table.append((cbytes[:-4], pickle.loads(cbytes[:-4])["version"]))
                    except Exception:  # noqa
                        pass
        for img in s["images"]:
            rreqs.append({"op": "recover", "files": {n: {"hex": c, "synced": sy} for n, (c, sy) in img["fs"].items()},
                          "garble": img["garble"], "table": [{"hex": t.hex(), "version": v} for t, v in table]})
            pk = img["after"].get("pickle")
            loaded = None
            if pk is not None:
                b = bytes.fromhex(pk)
                loaded = next((j for j, (t, _) in enumerate(table) if b[:-4] == t), "unknown")
            rwant.append({"res": "ok", "loaded": loaded,
                          "files": {n: c for n, c in img["after"].items()}})
            rcase.append({"seq": i, "prefix": img["prefix"], "garble": {n: (g if len(g) < 200 else "large") for n, g in img["garble"].items()}})
    for want, case, got in zip(rwant, rcase, ctx.lean(DRIVER, rreqs) if rreqs else []):
        g = {"res": got.get("res"), "loaded": got.get("loaded"),
             "files": {n: f["data"] for n, f in got.get("files", {}).items()}}
        ctx.case(("recover", case["seq"], case["prefix"], json.dumps(case["garble"], sort_keys=True)))
        ctx.count("recover", "loaded" if want["loaded"] is not None else "no-state")
        if g != want:
            ctx.disagree("fresh start on a crash image == initRun (recover fs g) of the model", case, _short(want), _short(g))
    ctx.trace_validated(len(rreqs))
    # ---- R4: version window
    vreqs, vwant = [], []
    work = os.path.join(ctx.tmp, "version")
    os.makedirs(work, exist_ok=True)
    U = {"paths": [], "attics": [], "digests": []}
    st0 = {"byNameDirs": {}, "results": {"p": b"h"}, "inputs": {}, "jenkins": {}, "dirStates": {}, "buildState": {},
           "variantIds": {}, "atticDirs": {}, "layerStates": {}, "storagePath": {}}
    for v in range(0, 14):
        st = dict(st0, version=v, createdWithVersion=v)
        if v <= 5:
            st["buildState"] = {}
        p = pickle.dumps(st)
        outcome, _, _ = fresh_start(work, {"pickle": p + struct.pack("<I", zlib.adler32(p))}, U)
        kind = "ok" if outcome == "ok" else ("tooOld" if "cannot read the workspace" in outcome else
                                               "tooNew" if "too old for the workspace" in outcome else outcome)
        vreqs.append({"op": "recover", "files": {"pickle": {"hex": (p + struct.pack("<I", zlib.adler32(p))).hex(), "synced": True}},
                      "garble": {}, "table": [{"hex": p.hex(), "version": v}]})
        vwant.append(kind)
    for v, (want, got) in enumerate(zip(vwant, ctx.lean(DRIVER, vreqs))):
        ctx.case(("version", v))
        ctx.count("version_window", want)
        if want == "timeout":
            ctx.skip("version window: fresh start timed out")
            continue
        if got.get("res") != want:
            ctx.disagree("version window of __init__ == loadBytes", {"version": v}, want, got.get("res"))
    shutil.rmtree(work, ignore_errors=True)


def _short(d):
    return json.loads(json.dumps(d, default=repr), object_hook=lambda o: {k: (v[:80] + "..." if isinstance(v, str) and len(v) > 90 else v)
                                                                           for k, v in o.items()})


# ---------------------------------------------------------------------------------------------
# replay

def replay(ctx, case):
    k = case.get("kind")
    if k == "fault":
        h = case["history"]
        res, why = run_fault_children(ctx.tmp, ctx.repo, [h], "replay")
        if res is None:
            ctx.skip("replay: " + why)
            return
        res[0]["empty_view"] = _empty_view_cached(ctx, h["universe"])
        bad = fault_check_one(h, res[0])
        if bad is not None:
            sig = FAULT_SIG_UNREADABLE if (bad[1] == "unreadable" and _uses_unverified_commit(h)) else "fault-" + bad[1]
            ctx.violation(bad[0], case, sig)
        return
    if k == "crash":
        import random
        script = case["script"]
        ops, rec = run_child(ctx.tmp, ctx.repo, script, "replay")
        work = os.path.join(ctx.tmp, "replay-img")
        os.makedirs(work, exist_ok=True)
        U = script["universe"]
        empty = empty_view(work, U)
        events = seq_structure(ops, rec)
        fs = SimFS()
        for op in ops[:case["prefix"]]:
            fs.apply(op)
        base, since, last, progress = admissible_at(case["prefix"], events, rec, empty)
        image = {n: c for n, (c, s) in fs.items()}
        if isinstance(case.get("image"), dict):
            for n, h in case["image"].items():
                image[n] = bytes.fromhex(h)
            for n in list(image):
                if n != "lock" and n not in case["image"]:
                    del image[n]
        outcome, v, _ = fresh_start(work, image, U)
        if outcome == "timeout":
            ctx.skip("replay: fresh start timed out")
            return
        if outcome != "ok":
            ctx.violation("the next start fails: " + outcome, case, "start-fails-after-crash")
        elif not (v == base or v == last or any(v == x for x in since)):
            ctx.violation("loaded state is not an admissible snapshot", case, "recovered-state-not-admissible")
        elif case.get("garble") == "intact" and v != last and v != progress:
            ctx.violation("newest saved snapshot lost without garbling", case, "intact-image-not-latest")
        for at, kind, who in events:
            if kind == "end" and at == case["prefix"]:
                inv = rec[who]
                endview = inv["calls"][-1]["view"] if inv["calls"] else inv.get("view0")
                if endview != admissible_at(at - 1, events, rec, empty)[2]:
                    ctx.violation("final in-memory state never saved", case, "unsaved-mutation-at-finalize")
            if kind == "start" and at - 1 == case["prefix"] and rec[who].get("init") == "ok" and \
                    rec[who]["view0"] != admissible_at(at - 1, events, rec, empty)[2]:
                ctx.violation("restart loads a different state", case, "restart-loads-different-state")
    elif k == "verify":
        work = os.path.join(ctx.tmp, "replay-verify")
        os.makedirs(work, exist_ok=True)
        g = bytes.fromhex(case["hex"])
        _, _, after = fresh_start(work, {"new": g}, {"paths": [], "attics": [], "digests": []})
        if ("pickle" in after) != case.get("want", my_verify(g)):
            ctx.violation("commit decision for the uncommitted file is wrong", case, "verify-decision-wrong")
    elif k in ("lock", "race"):
        from bob.state import _BobState
        from bob.errors import ParseError
        work = os.path.join(ctx.tmp, "replay-lock")
        os.makedirs(work, exist_ok=True)
        cwd = os.getcwd()
        os.chdir(work)
        try:
            a = _BobState()
            for c in case.get("script", {"invocations": [[]]})["invocations"][0][:case.get("cut", 0)]:
                try:
                    do_call(a, c)
                except (KeyError, AssertionError):
                    pass
            before = listing(work)
            try:
                _BobState()
                ctx.violation("second instance not refused", case, "second-instance-not-refused")
            except ParseError:
                if listing(work) != before:
                    ctx.violation("refused instance wrote", case, "refused-instance-wrote")
        finally:
            os.chdir(cwd)


MANIFEST = {
    "text": "Proved in Lean for all histories (Props/C10.lean) about a model of _BobState's save/commit/load/finalize/lock protocol over "
            "an abstract file system with synced/unsynced contents: for every sequence of API calls grouped into invocations, every "
            "prefix of the file-system operation trace and every detectable garbling of unsynced files, the next start loads without "
            "error the state at the end of the last completed invocation or one snapshot saved since (also after repeated crashes); the "
            "committed file is durable at every instant; two instances never hold the workspace together and a refused start changes "
            "nothing; asynchronous sections emit nothing and end in exactly one save; the Adler-32 trailer round-trips, rejects short and "
            "all-zero files and any single-byte change. The model is tied to the current source by strace-level differential runs of "
            "random API sequences (op lists, snapshots, trailer bytes, recovery of real crash images) and regenerated constants. "
            "Independently the crash-image replay on the implementation is the property oracle. I/O errors (ENOSPC/EIO at every "
            "file-system call of __save/__commit/finalize/__init__, exception handling transliterated) are inside the model: with "
            "arbitrary faults and crashes the next start loads the state committed by the last error-free finalize or a snapshot "
            "completely saved since (no restriction on the faults; for the code before 99181a7, whose finalize commits a left-over "
            "uncommitted file unverified, the statement is refuted in Lean and was reproduced on the implementation: F-C10-3); a later error-free save + finalize makes the "
            "then-current state durable from any directory content; a failed save changes nothing but .dirty; lock facts under faults. "
            "Tie and oracle: OSErrors injected into real _BobState runs in a child process.",
    "note": "trusted: Lean kernel, harness/props/c10.py (incl. its strace parser and POSIX bookkeeping), tools/consts/c10.py, CPython "
            "pickle/zlib/struct/os, strace; assumptions: POSIX rename/unlink/O_EXCL atomic and durable in order, fsync durable, Detectable "
            "garbling, stale lock removed by the user after a crash",
    "technique": "Lean 4 invariant proof over hand-written model + strace differential correspondence + crash-image replay oracle",
}
