"""C11 - directory hashes are content exact and cache transparent.

oracle (implementation alone, real trees below ctx.tmp, edit histories):
   (a) hashDirectory(tree, cache.bin) == hashDirectory(tree) after every step of a history, the cache file being
       carried along - and now and then replaced by a variant that is still sound (deleted, empty, wrong signature,
       truncated anywhere, shuffled, duplicated, an older snapshot, one record with a tampered stat field / name and a
       garbage digest);
   (b) hash (in)equality against an independent canonical serialisation of the tree (names, types, permission bits,
       contents, link targets, device numbers; SCM directories and BaseDirList.txt files dropped): over all states of
       all histories `canon -> hash` and `hash -> canon` must both be functions (consecutive states are single-edit
       neighbours);
   (c) a copy of the tree created in another order, with other time stamps and owners, has the same hash.
correspond: the same kind of histories; after every step the real tree (scandir order, lstat data, contents) and the
   old cache.bin bytes go to the Lean model `drv_c11`; compared are the uncached digest, the cached digest and the new
   cache.bin **byte for byte**; plus hashPath on single entries and binStat.
"""
import hashlib
import os
import stat
import struct

DRIVER = "drv_c11"
RULE = ("histories: a generated tree (files incl. >16 KiB and equal contents, empty and nested directories, symlinks incl. "
        "dangling/non-UTF-8 targets, hard links, FIFOs, char/block devices, sockets, modes incl. setuid/sticky/0, names with "
        "blanks, quotes, newlines, non-UTF-8 bytes, sort-order traps like 'a' 'a.b' 'a-b' 'a0', .git/.svn/.portage-cache as "
        "directory and as file, BaseDirList.txt as file and as directory) followed by 8-14 steps drawn from create / rewrite / "
        "same-size rewrite / same-size rewrite in place with the old mtime restored / append / chmod / delete / rename / swap / type replacement file<->dir<->symlink<->fifo / retarget / "
        "hard link / utime / chown / no-op, each optionally preceded by a manipulation of cache.bin. A case is one step of one "
        "history (distinct by canonical tree + old index bytes), non-trivial if the tree has at least one indexed entry.")
ASSUMPTIONS = [
    "every modification of a file changes (ctime, mtime, dev, ino, mode, size) w.r.t. every earlier version seen under the same "
    "name (hypothesis `Coherent` of cache_history; the harness checks it on every step and re-touches a file if the clock was too coarse)",
    "SHA-1 has no collision among the byte strings hashed for the two compared trees (hypothesis `CollisionFree` of hashDir_iff)",
    "names are NUL free (guaranteed by the kernel), st_mode < 2^16, st_rdev < 2^32, relative path length < 2^16",
    "POSIX only: os.path.sep == '/', maskIno is the identity on 64 bit inode numbers",
    "unreadable files/directories (warning + hash of partial content) and the optional ignoreDirs argument are outside the model",
    "hashDirectoryWithSize's size sum is not modelled",
]

IGN_DIRS = {b".git", b".svn", b".portage-cache"}
IGN_FILES = {b"BaseDirList.txt"}
ENTRY_FMT = "=qqQQLQ20sH"
ENTRY_SIZE = struct.calcsize(ENTRY_FMT)
SIG = b"BOB2"

NAMES = [b"a", b"b", b"a.b", b"a-b", b"a b", b"a0", b"A", b"ab", b"abc", b"z", b"\xff\xfe", b"n\nl", b"q'\"", b"\xc3\xa4",
         b".git", b".svn", b".portage-cache", b"BaseDirList.txt", b".gitignore", b"a\x01", b"-", b"~", b"sub", b"lib",
         b"x" * 40, b"\x80", b" ", b"a.", b"a\xff", b"b.c", b"B", b"..a", b"src", b"a,b"]
CONTENTS = [b"", b"x", b"hello\n", b"hellp\n", b"a", b"b", b"\x00", b"\x00\x00", b"../a", b"a/b", b"target", b"abc" * 30]
PERMS = [0o644, 0o755, 0o600, 0o640, 0o444, 0o000, 0o777, 0o4755, 0o2755, 0o1777, 0o6711, 0o400, 0o100, 0o664]
ROOT = os.geteuid() == 0


def _probe_mknod(where):
    """can device nodes and sockets be created below `where` (inside ctx.tmp)?"""
    import shutil
    d = os.path.join(where, "mknod-probe-%d" % os.getpid())
    try:
        os.makedirs(d)
        os.mknod(os.path.join(d, "c"), stat.S_IFCHR | 0o600, os.makedev(1, 3))
        os.mknod(os.path.join(d, "s"), stat.S_IFSOCK | 0o600)
        return True
    except OSError:
        return False
    finally:
        shutil.rmtree(d, ignore_errors=True)


CAN_MKNOD = None      # decided once per process inside ctx.tmp, see run_history


def hx(b):
    return b.hex()


def unhx(s):
    return bytes.fromhex(s)


# ------------------------------------------------------------------ reading the real tree

def scan(path):
    """entries of directory `path` in scandir order with everything the model needs"""
    out = []
    with os.scandir(path) as it:
        ents = [(e.name, e.path) for e in it]
    for name, p in ents:
        st = os.lstat(p)
        node = {"n": hx(name), "m": st.st_mode, "st": [st.st_ctime_ns, st.st_mtime_ns, st.st_dev, st.st_ino, st.st_size]}
        if stat.S_ISREG(st.st_mode):
            with open(p, "rb") as f:
                node["d"] = hx(f.read())
        elif stat.S_ISLNK(st.st_mode):
            node["d"] = hx(os.readlink(p))
        elif stat.S_ISDIR(st.st_mode):
            node["e"] = scan(p)
        elif stat.S_ISCHR(st.st_mode) or stat.S_ISBLK(st.st_mode):
            node["r"] = st.st_rdev
        out.append(node)
    return out


def scan_node(p):
    st = os.lstat(p)
    node = {"n": "", "m": st.st_mode, "st": [st.st_ctime_ns, st.st_mtime_ns, st.st_dev, st.st_ino, st.st_size]}
    if stat.S_ISREG(st.st_mode):
        with open(p, "rb") as f:
            node["d"] = hx(f.read())
    elif stat.S_ISLNK(st.st_mode):
        node["d"] = hx(os.readlink(p))
    elif stat.S_ISDIR(st.st_mode):
        node["e"] = scan(p)
    elif stat.S_ISCHR(st.st_mode) or stat.S_ISBLK(st.st_mode):
        node["r"] = st.st_rdev
    return node


def canon_spec(entries):
    """independent canonical form of a scanned tree: exactly what the property says the hash depends on"""
    out = []
    for e in entries:
        name, m = unhx(e["n"]), e["m"]
        fmt, perm = stat.S_IFMT(m), stat.S_IMODE(m)
        if fmt == stat.S_IFDIR:
            if name in IGN_DIRS:
                continue
            out.append((name, "dir", perm, canon_spec(e.get("e", []))))
        else:
            if name in IGN_FILES:
                continue
            if fmt == stat.S_IFREG:
                out.append((name, "file", perm, unhx(e["d"])))
            elif fmt == stat.S_IFLNK:
                out.append((name, "link", perm, unhx(e["d"])))
            elif fmt in (stat.S_IFCHR, stat.S_IFBLK):
                out.append((name, "chr" if fmt == stat.S_IFCHR else "blk", perm, e.get("r", 0)))
            else:
                out.append((name, "fmt%o" % fmt, perm, None))
    out.sort(key=lambda x: x[0])
    return tuple(out)


def canon_key(entries):
    return hashlib.sha256(repr(canon_spec(entries)).encode()).hexdigest()


def leaves(entries, prefix=b""):
    """(index name, stat key, own content digest) of every regular file / symlink, ignored ones included"""
    for e in entries:
        name = unhx(e["n"])
        p = prefix + b"/" + name if prefix else name
        fmt = stat.S_IFMT(e["m"])
        if fmt in (stat.S_IFREG, stat.S_IFLNK):
            yield p, (tuple(e["st"]), e["m"]), hashlib.md5(unhx(e["d"])).digest()
        elif fmt == stat.S_IFDIR:
            yield from leaves(e.get("e", []), p)


def n_indexed(entries):
    n = 0
    for e in entries:
        name = unhx(e["n"])
        fmt = stat.S_IFMT(e["m"])
        if fmt == stat.S_IFDIR:
            if name not in IGN_DIRS:
                n += n_indexed(e.get("e", []))
        elif name not in IGN_FILES and fmt in (stat.S_IFREG, stat.S_IFLNK):
            n += 1
    return n


# ------------------------------------------------------------------ generating and building trees

def gen_content(r):
    k = r.random()
    if k < 0.45:
        return r.choice(CONTENTS)
    if k < 0.93:
        return bytes(r.randrange(256) for _ in range(r.randrange(0, 24)))
    # beyond one read chunk of hashFile (16384), differences possibly only in the tail
    base = (b"0123456789abcdef" * 1024) * r.choice([1, 1, 2])
    return base + bytes(r.randrange(256) for _ in range(r.randrange(0, 6)))


def gen_name(r, taken):
    for _ in range(20):
        n = r.choice(NAMES) if r.random() < 0.85 else bytes(r.choice(b"ab./-_ \xe9\x01~AZ") for _ in range(r.randrange(1, 5)))
        if n not in taken and n not in (b".", b"..") and b"/" not in n and b"\x00" not in n:
            return n
    return None


def gen_perm(r, isdir):
    p = r.choice(PERMS)
    if not ROOT:
        p |= 0o700 if isdir else 0o600
    return p


def gen_node(r, name, depth):
    k = r.random()
    if k < 0.50:
        return {"k": "file", "n": hx(name), "mode": gen_perm(r, False), "data": hx(gen_content(r))}
    if k < 0.72 and depth < 3:
        return {"k": "dir", "n": hx(name), "mode": gen_perm(r, True), "e": gen_entries(r, depth + 1)}
    if k < 0.86:
        return {"k": "link", "n": hx(name), "data": hx(gen_target(r))}
    if k < 0.91:
        return {"k": "fifo", "n": hx(name), "mode": gen_perm(r, False)}
    if k < 0.95 and CAN_MKNOD:
        return {"k": r.choice(["chr", "blk"]), "n": hx(name), "mode": gen_perm(r, False),
                "rdev": os.makedev(r.choice([1, 7, 8, 259]), r.randrange(0, 4))}
    if k < 0.97 and CAN_MKNOD:
        return {"k": "sock", "n": hx(name), "mode": gen_perm(r, False)}
    return {"k": "file", "n": hx(name), "mode": gen_perm(r, False), "data": hx(gen_content(r))}


def gen_target(r):
    k = r.random()
    if k < 0.5:
        return r.choice(NAMES)
    if k < 0.8:
        return r.choice([c for c in CONTENTS if c and b"\x00" not in c])
    return bytes(r.choice(b"ab./\xff") for _ in range(r.randrange(1, 6)))


def gen_entries(r, depth):
    n = r.choice([0, 1, 2, 3, 4, 6]) if depth else r.randrange(2, 9)
    out, taken = [], set()
    for _ in range(n):
        name = gen_name(r, taken)
        if name is None:
            break
        taken.add(name)
        out.append(gen_node(r, name, depth))
    return out


def build(path, entries, r=None):
    """create `entries` below the existing directory `path`; with r: in shuffled order"""
    ents = list(entries)
    if r is not None:
        r.shuffle(ents)
    for e in ents:
        p = os.path.join(path, unhx(e["n"]))
        k = e["k"]
        if k == "file":
            with open(p, "wb") as f:
                f.write(unhx(e["data"]))
            os.chmod(p, e["mode"])
        elif k == "dir":
            os.mkdir(p)
            build(p, e["e"], r)
            os.chmod(p, e["mode"])
        elif k == "link":
            os.symlink(unhx(e["data"]), p)
        elif k == "fifo":
            os.mkfifo(p)
            os.chmod(p, e["mode"])
        elif k in ("chr", "blk"):
            os.mknod(p, (stat.S_IFCHR if k == "chr" else stat.S_IFBLK) | 0o600, e["rdev"])
            os.chmod(p, e["mode"])
        elif k == "sock":
            os.mknod(p, stat.S_IFSOCK | 0o600)
            os.chmod(p, e["mode"])


def spec_of_scan(entries):
    """build()-able description of a scanned tree (hard links become separate files)"""
    out = []
    for e in entries:
        m = e["m"]
        fmt, perm = stat.S_IFMT(m), stat.S_IMODE(m)
        if fmt == stat.S_IFREG:
            out.append({"k": "file", "n": e["n"], "mode": perm, "data": e["d"]})
        elif fmt == stat.S_IFDIR:
            out.append({"k": "dir", "n": e["n"], "mode": perm, "e": spec_of_scan(e.get("e", []))})
        elif fmt == stat.S_IFLNK:
            out.append({"k": "link", "n": e["n"], "data": e["d"]})
        elif fmt == stat.S_IFIFO:
            out.append({"k": "fifo", "n": e["n"], "mode": perm})
        elif fmt in (stat.S_IFCHR, stat.S_IFBLK):
            out.append({"k": "chr" if fmt == stat.S_IFCHR else "blk", "n": e["n"], "mode": perm, "rdev": e.get("r", 0)})
        elif fmt == stat.S_IFSOCK:
            out.append({"k": "sock", "n": e["n"], "mode": perm})
    return out


def perturb_meta(path, r):
    """change what must not matter: time stamps and owners of everything below path"""
    for dp, dns, fns in os.walk(path):
        for n in dns + fns:
            p = os.path.join(dp, n)
            try:
                os.utime(p, ns=(r.randrange(0, 2 * 10 ** 18), r.randrange(-10 ** 12, 2 * 10 ** 18)), follow_symlinks=False)
                if ROOT:
                    st = os.lstat(p)
                    os.lchown(p, r.randrange(0, 70000), r.randrange(0, 70000))
                    if not stat.S_ISLNK(st.st_mode):
                        os.chmod(p, stat.S_IMODE(st.st_mode))    # chown clears setuid/setgid
            except OSError:
                pass


# ------------------------------------------------------------------ edit steps (concrete, replayable)

def rm(p):
    st = os.lstat(p)
    if stat.S_ISDIR(st.st_mode):
        for n in os.listdir(p):
            rm(os.path.join(p, n))
        os.rmdir(p)
    else:
        os.unlink(p)


def apply_op(root, op):
    k = op["op"]
    p = os.path.join(root, unhx(op["p"])) if op.get("p") else root
    if k == "write":
        with open(p, "wb") as f:
            f.write(unhx(op["data"]))
        if "mode" in op:
            os.chmod(p, op["mode"])
    elif k == "append":
        with open(p, "ab") as f:
            f.write(unhx(op["data"]))
    elif k == "mkdir":
        os.mkdir(p)
        os.chmod(p, op["mode"])
    elif k == "symlink":
        os.symlink(unhx(op["data"]), p)
    elif k == "mkfifo":
        os.mkfifo(p)
        os.chmod(p, op["mode"])
    elif k == "mknod":
        os.mknod(p, op["fmt"] | 0o600, op.get("rdev", 0))
        os.chmod(p, op["mode"])
    elif k == "chmod":
        os.chmod(p, op["mode"])
    elif k == "rm":
        rm(p)
    elif k == "rename":
        os.rename(p, os.path.join(root, unhx(op["to"])))
    elif k == "link":
        os.link(p, os.path.join(root, unhx(op["to"])), follow_symlinks=False)
    elif k == "utime":
        os.utime(p, ns=(op["at"], op["mt"]), follow_symlinks=False)
    elif k == "chown":
        st = os.lstat(p)
        os.lchown(p, op["u"], op["g"])
        if not stat.S_ISLNK(st.st_mode):
            os.chmod(p, stat.S_IMODE(st.st_mode))
    elif k == "noop":
        pass
    else:
        raise AssertionError(k)


def listing(root):
    """relative paths (bytes) with kind letters f d l o"""
    out = []

    def go(rel, depth):
        full = os.path.join(root, rel) if rel else root
        for n in sorted(os.listdir(full)):
            r_ = rel + b"/" + n if rel else n
            st = os.lstat(os.path.join(root, r_))
            kind = "f" if stat.S_ISREG(st.st_mode) else "d" if stat.S_ISDIR(st.st_mode) else "l" if stat.S_ISLNK(st.st_mode) else "o"
            out.append((r_, kind, depth))
            if kind == "d":
                go(r_, depth + 1)
    go(b"", 1)
    return out


def new_path(r, root, ls, maxdepth=4):
    dirs = [(b"", 0)] + [(p, d) for p, k, d in ls if k == "d" and d < maxdepth]
    d, _ = r.choice(dirs)
    taken = set(os.listdir(os.path.join(root, d) if d else root))
    n = gen_name(r, taken)
    if n is None:
        return None
    return d + b"/" + n if d else n


def create_ops(r, p, depth_ok=True):
    k = r.random()
    if k < 0.5:
        return [{"op": "write", "p": hx(p), "data": hx(gen_content(r)), "mode": gen_perm(r, False)}], "create-file"
    if k < 0.68 and depth_ok:
        ops = [{"op": "mkdir", "p": hx(p), "mode": 0o755}]
        for n in r.sample([b"a", b"b", b"a.b", b".git", b"BaseDirList.txt", b"z"], r.randrange(0, 3)):
            ops.append({"op": "write", "p": hx(p + b"/" + n), "data": hx(gen_content(r)), "mode": gen_perm(r, False)})
        ops.append({"op": "chmod", "p": hx(p), "mode": gen_perm(r, True)})
        return ops, "create-dir"
    if k < 0.86:
        return [{"op": "symlink", "p": hx(p), "data": hx(gen_target(r))}], "create-link"
    if k < 0.93 or not CAN_MKNOD:
        return [{"op": "mkfifo", "p": hx(p), "mode": gen_perm(r, False)}], "create-fifo"
    fmt = r.choice([stat.S_IFCHR, stat.S_IFBLK, stat.S_IFSOCK])
    return [{"op": "mknod", "p": hx(p), "fmt": fmt, "mode": gen_perm(r, False),
             "rdev": 0 if fmt == stat.S_IFSOCK else os.makedev(r.choice([1, 7, 8]), r.randrange(0, 4))}], "create-special"


def read_file(root, p):
    with open(os.path.join(root, p), "rb") as f:
        return f.read()


def keep_mtime_ops(root, p, new):
    """overwrite file p in place and set its time stamps back (`touch -r` / `touch -d @epoch` after the write)"""
    st = os.lstat(os.path.join(root, p))
    return [{"op": "write", "p": hx(p), "data": hx(new)},
            {"op": "utime", "p": hx(p), "at": st.st_atime_ns, "mt": st.st_mtime_ns}]


def gen_step(r, root):
    """one edit of the real tree below root as a list of concrete ops, and its kind"""
    ls = listing(root)
    files = [p for p, k, _ in ls if k == "f"]
    links = [p for p, k, _ in ls if k == "l"]
    dirs = [p for p, k, _ in ls if k == "d"]
    anyp = [p for p, _, _ in ls]
    for _ in range(30):
        k = r.random()
        if k < 0.17 or not anyp:
            p = new_path(r, root, ls)
            if p is None:
                continue
            return create_ops(r, p)
        if k < 0.27 and files:
            p = r.choice(files)
            old = read_file(root, p)
            new = gen_content(r)
            if new == old:
                new = old + b"!"
            return [{"op": "write", "p": hx(p), "data": hx(new)}], "rewrite"
        if k < 0.37 and files:
            p = r.choice(files)
            old = read_file(root, p)
            if not old:
                continue
            i = r.randrange(len(old)) if r.random() < 0.6 else len(old) - 1
            new = old[:i] + bytes([old[i] ^ (1 << r.randrange(8))]) + old[i + 1:]
            if i % 3 == 0:
                # (decided by a draw that exists anyway: the streams of older seeds stay as they were)
                return keep_mtime_ops(root, p, new), "same-size-rewrite-keep-mtime"
            return [{"op": "write", "p": hx(p), "data": hx(new)}], "same-size-rewrite"
        if k < 0.40 and files:
            return [{"op": "append", "p": hx(r.choice(files)), "data": hx(r.choice([b"x", b"\n", b"\x00", b"tail"]))}], "append"
        if k < 0.49 and (files or dirs):
            p = r.choice(files + dirs)
            st = os.lstat(os.path.join(root, p))
            isdir = stat.S_ISDIR(st.st_mode)
            m = gen_perm(r, isdir) if r.random() < 0.6 else stat.S_IMODE(st.st_mode) ^ (1 << r.randrange(12))
            if not ROOT:
                m |= 0o700 if isdir else 0o600
            if m == stat.S_IMODE(st.st_mode):
                continue
            return [{"op": "chmod", "p": hx(p), "mode": m}], "chmod"
        if k < 0.57:
            return [{"op": "rm", "p": hx(r.choice(anyp))}], "delete"
        if k < 0.65:
            p = r.choice(anyp)
            q = new_path(r, root, [(x, kk, d) for x, kk, d in ls if not (x == p or x.startswith(p + b"/"))], 3)
            if q is None or q == p or q.startswith(p + b"/"):
                continue
            return [{"op": "rename", "p": hx(p), "to": hx(q)}], "rename"
        if k < 0.69 and len(anyp) >= 2:
            a, b = r.sample(anyp, 2)
            if a.startswith(b + b"/") or b.startswith(a + b"/"):
                continue
            tmp = b".swap-tmp"
            return [{"op": "rename", "p": hx(a), "to": hx(tmp)}, {"op": "rename", "p": hx(b), "to": hx(a)},
                    {"op": "rename", "p": hx(tmp), "to": hx(b)}], "swap"
        if k < 0.79:
            p = r.choice(anyp)
            depth = p.count(b"/") + 1
            ops, kind = create_ops(r, p, depth < 4)
            # keep the payload when a file becomes a symlink or the other way round
            kd = {x: kk for x, kk, _ in ls}[p]
            if kd == "f" and ops[0]["op"] == "symlink" and r.random() < 0.5:
                c = read_file(root, p)
                if c and b"\x00" not in c and len(c) < 200:
                    ops[0]["data"] = hx(c)
            if kd == "l" and ops[0]["op"] == "write" and r.random() < 0.5:
                ops[0]["data"] = hx(os.readlink(os.path.join(root, p)))
            return [{"op": "rm", "p": hx(p)}] + ops, "replace-" + kd + "-by-" + kind[7:]
        if k < 0.84 and links:
            p = r.choice(links)
            old = os.readlink(os.path.join(root, p))
            new = gen_target(r)
            # a target that differs in name only but resolves to equal content / equal stat
            sib = [f for f in files if os.path.dirname(f) == os.path.dirname(p)]
            if sib and r.random() < 0.5:
                new = os.path.basename(r.choice(sib))
            elif r.random() < 0.45:
                # same destination, different spelling: the literal link target is what counts
                new = r.choice([b"./" + old, old + b"/", old.replace(b"/", b"//") if b"/" in old else b".//" + old,
                                b"x/../" + old, old + b"/."])
            if new == old:
                continue
            return [{"op": "rm", "p": hx(p)}, {"op": "symlink", "p": hx(p), "data": hx(new)}], "retarget"
        if k < 0.88 and files:
            p = r.choice(files)
            q = new_path(r, root, ls)
            if q is None:
                continue
            return [{"op": "link", "p": hx(p), "to": hx(q)}], "hardlink"
        if k < 0.93:
            p = r.choice(anyp)
            return [{"op": "utime", "p": hx(p), "at": r.randrange(0, 2 * 10 ** 18),
                     "mt": r.choice([0, -5 * 10 ** 9, r.randrange(0, 2 * 10 ** 18)])}], "utime"
        if k < 0.96 and ROOT:
            return [{"op": "chown", "p": hx(r.choice(anyp)), "u": r.randrange(0, 70000), "g": r.randrange(0, 70000)}], "chown"
        if k < 0.98 and files:
            # same content written again: the hash stays, the stat data changes
            p = r.choice(files)
            return [{"op": "write", "p": hx(p), "data": hx(read_file(root, p))}], "rewrite-same-content"
        if k < 0.995 and files:
            # reproducible-build style: new content of the same size written in place (same inode), time stamp clamped
            # to what it was before - the ctime is the only stat field that tells the versions apart
            p = r.choice(files)
            old = read_file(root, p)
            if not old:
                continue
            j = len(old) - 1
            c = old[j:j + 1]
            new = old[:j] + (bytes([c[0] + 1]) if c.isdigit() and c != b"9" else bytes([c[0] ^ 1]))
            return keep_mtime_ops(root, p, new), "same-size-rewrite-keep-mtime"
        return [{"op": "noop"}], "noop"
    return [{"op": "noop"}], "noop"


# ------------------------------------------------------------------ cache.bin variants that stay sound

def parse_cache(raw):
    if raw is None or raw[:4] != SIG:
        return None
    recs, pos = [], 4
    while pos + ENTRY_SIZE <= len(raw):
        f = struct.unpack(ENTRY_FMT, raw[pos:pos + ENTRY_SIZE])
        name = raw[pos + ENTRY_SIZE:pos + ENTRY_SIZE + f[7]]
        recs.append([list(f[:6]), f[6], name])
        pos += ENTRY_SIZE + f[7]
    return recs


def build_cache(recs):
    return SIG + b"".join(struct.pack(ENTRY_FMT, *(st + [dg, len(name)])) + name for st, dg, name in recs)


IX_VARIANTS = ["delete", "empty", "sigonly", "badsig", "truncate", "shuffle", "dup", "older", "tamper-stat", "tamper-stat",
               "tamper-stat", "tamper-name", "reverse", "drop"]


def gen_ix_variant(r, nsnap):
    k = r.choice(IX_VARIANTS)
    v = {"v": k, "a": r.randrange(1 << 30), "b": r.randrange(1 << 30)}
    if k == "older":
        if nsnap == 0:
            v["v"] = "delete"
        else:
            v["a"] = r.randrange(nsnap)
    return v


def apply_ix_variant(cache_path, v, snapshots):
    """rewrite cache.bin; every variant keeps the index sound (a record with the stat data of a current file
    still has that file's digest)"""
    import random
    raw = open(cache_path, "rb").read() if os.path.exists(cache_path) else None
    k, r = v["v"], random.Random(v["a"] * 7919 + v["b"])
    new = raw
    if k == "delete":
        new = None
    elif k == "empty":
        new = b""
    elif k == "sigonly":
        new = SIG
    elif k == "badsig":
        new = r.choice([b"BOB1", b"BOB", b"\x00\x00\x00\x00", b"XXXX"]) + (raw or b"")[4:]
    elif k == "truncate":
        if raw:
            new = raw[:r.randrange(len(raw) + 1)]
    elif k == "older":
        new = snapshots[v["a"]] if v["a"] < len(snapshots) else None
    else:
        recs = parse_cache(raw)
        if recs:
            if k == "shuffle":
                r.shuffle(recs)
            elif k == "reverse":
                recs.reverse()
            elif k == "dup":
                i = r.randrange(len(recs))
                recs.insert(r.randrange(len(recs) + 1), recs[i])
            elif k == "drop":
                del recs[r.randrange(len(recs))]
            elif k == "tamper-stat":
                i, fld = r.randrange(len(recs)), r.randrange(6)
                st = list(recs[i][0])
                if fld == 4:
                    st[4] ^= r.choice([0o1, 0o100, 0o4000, 0o20000])
                else:
                    st[fld] = (st[fld] + r.choice([1, -1, 1000, 10 ** 9 + 7])) % (1 << 62)
                recs[i] = [st, bytes(r.randrange(256) for _ in range(20)), recs[i][2]]
            elif k == "tamper-name":
                # the stat data of one file under a name that does not exist: a wrong digest there is harmless
                i = r.randrange(len(recs))
                recs[i] = [recs[i][0], bytes(r.randrange(256) for _ in range(20)), recs[i][2] + b"\x02nonexistent"]
            new = build_cache(recs)
    if new is None:
        if os.path.exists(cache_path):
            os.unlink(cache_path)
    else:
        with open(cache_path, "wb") as f:
            f.write(new)


# ------------------------------------------------------------------ running one history

def quiet():
    import logging
    logging.getLogger("bob.utils").setLevel(logging.CRITICAL)


def ensure_coherent(root, seen, tries=40):
    """the premise of the property: a file whose content differs from an earlier version under the same name has
    different stat data. Re-touch until it holds (coarse clocks); returns the scan, or None if it cannot be reached."""
    import time
    for t in range(tries):
        entries = scan(root)
        bad = [p for p, key, dg in leaves(entries) if seen.get((p, key), dg) != dg]
        if not bad:
            for p, key, dg in leaves(entries):
                seen[(p, key)] = dg
            return entries
        time.sleep(0.002 * (t + 1))
        for p in bad:
            full = os.path.join(root, p)
            st = os.lstat(full)
            if stat.S_ISLNK(st.st_mode):
                tgt = os.readlink(full)
                os.unlink(full)
                os.symlink(tgt, full)
            else:
                os.utime(full, ns=(st.st_atime_ns, st.st_mtime_ns + 1 + t))
    return None


class HistoryTimeout(BaseException):
    """not an OSError/Exception: must not be swallowed by the code under test"""


def run_history(job):
    """job = {"dir", "key", "mode": "oracle"|"corr", "steps": n} or a recorded {"init", "steps": [...]} (replay).
    Returns {"init", "steps", "results": [...], "violations": [...], "requests": [...]}"""
    import random
    import shutil
    import signal
    from bob.utils import hashDirectory, hashPath, binStat
    quiet()
    global CAN_MKNOD
    if CAN_MKNOD is None:
        CAN_MKNOD = ROOT and _probe_mknod(os.path.dirname(job["dir"]))

    def on_alarm(signum, frame):
        signal.setitimer(signal.ITIMER_REAL, 3.0)     # again, should the exception get lost
        raise HistoryTimeout()
    signal.signal(signal.SIGALRM, on_alarm)
    signal.setitimer(signal.ITIMER_REAL, job.get("limit", 45.0))
    r = random.Random(job["key"])
    base = job["dir"]
    os.makedirs(base)
    root = os.path.join(base.encode(), b"t")
    os.mkdir(root)
    cache = os.path.join(base, "cache.bin")
    recorded = job.get("recorded")
    init = recorded["init"] if recorded else gen_entries(r, 0)
    out = {"init": init, "steps": [], "results": [], "violations": [], "requests": [], "skipped": None, "hist": {}}

    def count(h, k):
        out["hist"].setdefault(h, {})
        out["hist"][h][k] = out["hist"][h].get(k, 0) + 1

    try:
        build(root, init)
        seen, snapshots = {}, []
        nsteps = len(recorded["steps"]) if recorded else job["steps"]
        for i in range(-1, nsteps):
            # ---- edit
            if i < 0:
                step = {"ops": [], "kind": "initial", "ix": None}
            elif recorded:
                step = recorded["steps"][i]
            else:
                ops, kind = gen_step(r, root)
                step = {"ops": ops, "kind": kind, "ix": gen_ix_variant(r, len(snapshots)) if r.random() < 0.3 else None}
            for op in step["ops"]:
                apply_op(root, op)
            if i >= 0:
                out["steps"].append(step)
            count("op", step["kind"])
            entries = ensure_coherent(root, seen)
            if entries is None:
                out["skipped"] = "clock too coarse: could not make stat data change"
                break
            if step["ix"]:
                apply_ix_variant(cache, step["ix"], snapshots)
                count("index-variant", step["ix"]["v"])
            old_ix = open(cache, "rb").read() if os.path.exists(cache) else None
            # ---- implementation
            hu = hashDirectory(root)
            hc = hashDirectory(root, cache)
            new_ix = open(cache, "rb").read() if os.path.exists(cache) else None
            snapshots.append(new_ix)
            count("cache", "no-file-before" if old_ix is None else "unchanged" if new_ix == old_ix else "rewritten")
            res = {"step": i, "kind": step["kind"], "canon": canon_key(entries), "hash": hu.hex(), "indexed": n_indexed(entries)}
            out["results"].append(res)
            if hu != hc:
                out["violations"].append({"what": "hashDirectory with cache.bin returned %s, without %s (step %d: %s, index variant %s)"
                                                  % (hc.hex(), hu.hex(), i, step["kind"], step["ix"] and step["ix"]["v"]),
                                          "sig": "cached-hash-differs-from-uncached", "step": i})
            if len(hu) != 20:
                out["violations"].append({"what": "digest is not 20 bytes", "sig": "digest-length", "step": i})
            # ---- order / metadata independence on a rebuilt copy
            if job["mode"] == "oracle" and (i == nsteps - 1 or r.random() < 0.12):
                cp = os.path.join(base.encode(), b"copy%d" % i)
                os.mkdir(cp)
                build(cp, spec_of_scan(entries), random.Random(r.randrange(1 << 30)))
                perturb_meta(cp, r)
                centries = scan(cp)
                if canon_spec(centries) == canon_spec(entries):   # (sanity of the copy itself)
                    h2 = hashDirectory(cp)
                    count("copy", "checked")
                    if h2 != hu:
                        out["violations"].append({"what": "a copy created in another order with other time stamps/owners hashes to %s, "
                                                          "the original to %s (step %d)" % (h2.hex(), hu.hex(), i),
                                                  "sig": "hash-depends-on-order-or-metadata", "step": i})
                rm(cp)
            # ---- model requests
            if job["mode"] == "corr":
                out["requests"].append({"req": {"op": "hashdir", "entries": entries, "index": None if old_ix is None else old_ix.hex()},
                                        "impl": {"uncached": hu.hex(), "cached": hc.hex(), "index": None if new_ix is None else new_ix.hex(),
                                                 "old": None if old_ix is None else old_ix.hex()},
                                        "step": i})
                if r.random() < 0.35:
                    ls = listing(root)
                    if ls:
                        p, kind, _ = r.choice(ls)
                        full = os.path.join(root, p)
                        pc = os.path.join(base, "pcache.bin")
                        if r.random() < 0.3 and os.path.exists(pc):
                            os.unlink(pc)
                        pold = open(pc, "rb").read() if os.path.exists(pc) else None
                        node = scan_node(full)
                        pu = hashPath(full)
                        pcached = hashPath(full, pc)
                        pnew = open(pc, "rb").read() if os.path.exists(pc) else None
                        count("hashPath", kind)
                        out["requests"].append({"req": {"op": "hashpath", "node": node, "index": None if pold is None else pold.hex()},
                                                "impl": {"uncached": pu.hex(), "cached": pcached.hex(),
                                                         "index": None if pnew is None else pnew.hex(),
                                                         "old": None if pold is None else pold.hex()}, "step": i})
                        if kind in ("f", "d"):
                            st = os.stat(full)
                            out["requests"].append({"req": {"op": "binstat", "m": st.st_mode,
                                                            "st": [st.st_ctime_ns, st.st_mtime_ns, st.st_dev, st.st_ino, st.st_size]},
                                                    "impl": binStat(full).hex(), "step": i})
    except HistoryTimeout:
        # (the unchanged hasher never blocks: it opens regular files only)
        out["skipped"] = "a history did not finish within its time limit"
    except OSError as e:
        out["skipped"] = "file system operation failed: %s" % e
    finally:
        signal.setitimer(signal.ITIMER_REAL, 0)
        try:
            rm(base.encode())
        except OSError:
            shutil.rmtree(base, ignore_errors=True)
    return out


def record_of(res, upto):
    return {"kind": "history", "init": res["init"], "steps": res["steps"][:upto + 1]}


def collect(ctx, results, tag):
    """common bookkeeping; returns the list of (canon, hash, history record) of all states"""
    states = []
    for res in results:
        if res["skipped"]:
            ctx.skip(res["skipped"])
        for h, d in res["hist"].items():
            for k, n in d.items():
                ctx.count(tag + "_" + h, k, n)
        for v in res["violations"]:
            ctx.violation(v["what"], record_of(res, v["step"]), v["sig"])
        for s in res["results"]:
            states.append((s["canon"], s["hash"], res, s["step"]))
    return states


def oracle(ctx):
    nh = ctx.scale(480, 6000)
    jobs = [{"dir": os.path.join(ctx.tmp, "o%d" % i), "key": "%s-%d-oracle-%d" % (ctx.prop, ctx.seed, i), "mode": "oracle",
             "steps": ctx.subrng("olen", i).randrange(8, 15) if ctx.tier == "quick" else ctx.subrng("olen", i).randrange(10, 41)}
            for i in range(nh)]
    results = []
    chunk = 32
    # the oracle may use half of what the build has left, but always gets a minimum share: a slow build
    # (loaded machine, regenerated constants) must not turn the check into a no-op
    import time
    t_stop = time.time() + max(ctx.time_left() * 0.5, ctx.scale(30, 300))
    for a in range(0, len(jobs), chunk):
        if time.time() > t_stop:
            ctx.notes["oracle_histories_cut"] = len(jobs) - a
            break
        results += ctx.parallel(run_history, jobs[a:a + chunk])
    states = collect(ctx, results, "oracle")
    by_canon, by_hash = {}, {}
    for canon, h, res, step in states:
        ctx.case(("o", canon, step, res["init"] and res["init"][0]["n"]), nontrivial=True,
                 sample={"history_steps": [s["kind"] for s in res["steps"][:step + 1]], "hash": h})
        if canon in by_canon and by_canon[canon][0] != h:
            o = by_canon[canon]
            ctx.violation("two trees that agree in names, types, permission bits, contents and link targets hash differently: %s / %s"
                          % (h, o[0]), {"kind": "pair", "a": record_of(res, step), "b": record_of(o[1], o[2])},
                          "equal-trees-different-hash")
        by_canon.setdefault(canon, (h, res, step))
        if h in by_hash and by_hash[h][0] != canon:
            o = by_hash[h]
            same_hist = o[1] is res
            ctx.violation("two different trees have the same hash %s (%s)" %
                          (h, "states %d and %d of one history: %s" % (o[2], step, [s["kind"] for s in res["steps"][o[2] + 1:step + 1]])
                           if same_hist else "different histories"),
                          {"kind": "pair", "a": record_of(res, step), "b": record_of(o[1], o[2])},
                          "different-trees-equal-hash")
        by_hash.setdefault(h, (canon, res, step))
    ctx.notes["oracle_states"] = len(states)
    ctx.notes["oracle_distinct_trees"] = len(by_canon)


def correspond(ctx):
    nh = ctx.scale(400, 4000)
    jobs = [{"dir": os.path.join(ctx.tmp, "c%d" % i), "key": "%s-%d-corr-%d" % (ctx.prop, ctx.seed, i), "mode": "corr",
             "steps": ctx.subrng("clen", i).randrange(8, 15) if ctx.tier == "quick" else ctx.subrng("clen", i).randrange(10, 41)}
            for i in range(nh)]
    chunk = 32
    import time
    t_stop = time.time() + max(ctx.time_left() - 15, ctx.scale(30, 300))
    for a in range(0, len(jobs), chunk):
        if time.time() > t_stop:
            ctx.notes["corr_histories_cut"] = len(jobs) - a
            break
        results = ctx.parallel(run_history, jobs[a:a + chunk])
        collect(ctx, results, "corr")
        reqs, meta = [], []
        for res in results:
            for q in res["requests"]:
                reqs.append(q["req"])
                meta.append((res, q))
        if not reqs:
            continue
        replies = lean_parallel(ctx, reqs)
        for (res, q), m in zip(meta, replies):
            op, impl = q["req"]["op"], q["impl"]
            case = {"history": record_of(res, q["step"]), "request": shorten(q["req"])}
            if op == "binstat":
                ctx.case(("binstat", q["req"]["st"]))
                if m != impl:
                    ctx.disagree("binStat == Model.binStat", case, impl, m)
                continue
            ctx.case((op, q["req"].get("entries") or q["req"].get("node"), q["req"]["index"]),
                     nontrivial=op == "hashpath" or n_indexed(q["req"]["entries"]) > 0)
            rel = "hashDirectory" if op == "hashdir" else "hashPath"
            ctx.count("corr_model_index", "untouched" if m.get("index") is None else "written")
            if m.get("uncached") != impl["uncached"]:
                ctx.disagree(rel + "(path) == Model.hashDir (NullIndex)", case, impl["uncached"], m.get("uncached"))
            if m.get("cached") != impl["cached"]:
                ctx.disagree(rel + "(path, index) == Model.hashDirCached digest", case, impl["cached"], m.get("cached"))
            want_ix = m.get("index") if m.get("index") is not None else impl["old"]
            if want_ix != impl["index"]:
                ctx.disagree(rel + "(path, index): new cache.bin == Model.encodeIndex (byte exact)", case,
                             describe_ix(impl["index"]), describe_ix(want_ix))
        ctx.trace_validated(len(reqs))


def _lean_chunk(args):
    import json
    import subprocess
    exe, reqs = args
    data = "".join(json.dumps(q) + "\n" for q in reqs)
    p = subprocess.run([exe], input=data.encode(), stdout=subprocess.PIPE, stderr=subprocess.PIPE)
    lines = p.stdout.decode().splitlines()
    if p.returncode != 0 or len(lines) != len(reqs):
        raise RuntimeError("driver failed: rc=%s %d/%d %s" % (p.returncode, len(lines), len(reqs), p.stderr.decode()[-500:]))
    return [json.loads(l) for l in lines]


def lean_parallel(ctx, reqs):
    """ctx.lean semantics (one reply per request, same driver binary), spread over several driver processes"""
    verif = os.path.dirname(os.path.dirname(os.path.dirname(os.path.abspath(__file__))))
    exe = os.path.join(verif, "lean", ".lake", "build", "bin", DRIVER)
    n = 16
    parts = [reqs[i::n] for i in range(n)]
    outs = ctx.parallel(_lean_chunk, [(exe, p) for p in parts if p])
    replies = [None] * len(reqs)
    for k, o in enumerate(outs):
        replies[k::n] = o
    return replies


def describe_ix(hexs):
    if hexs is None:
        return None
    raw = bytes.fromhex(hexs)
    recs = parse_cache(raw)
    if recs is None:
        return {"raw": hexs[:200]}
    return {"len": len(raw), "records": [[st, dg.hex(), name.hex()] for st, dg, name in recs][:40]}


def shorten(req):
    import json
    s = json.dumps(req)
    return req if len(s) < 20000 else {"op": req["op"], "note": "request too large for the replay file, re-run the history"}


def replay(ctx, case):
    hs = [case] if case.get("kind") == "history" else [case["a"], case["b"]]
    outs = []
    for i, h in enumerate(hs):
        res = run_history({"dir": os.path.join(ctx.tmp, "r%d" % i), "key": "replay", "mode": "oracle", "steps": 0, "recorded": h})
        if res["skipped"]:
            ctx.skip(res["skipped"])
        for v in res["violations"]:
            ctx.violation(v["what"], record_of(res, v["step"]), v["sig"])
        outs.append(res["results"][-1] if res["results"] else None)
    if len(outs) == 2 and all(outs):
        a, b = outs
        if a["canon"] == b["canon"] and a["hash"] != b["hash"]:
            ctx.violation("equal trees hash differently", case, "equal-trees-different-hash")
        if a["canon"] != b["canon"] and a["hash"] == b["hash"]:
            ctx.violation("different trees hash equally", case, "different-trees-equal-hash")


MANIFEST = {
    "text": "Proved in Lean for all trees, indexes and histories (Props/C11.lean): the un-delimited mode|digest|name encoding of a "
            "directory is uniquely decodable; under collision freedom of the hash on the strings that are hashed, two directory "
            "listings have equal hashes iff their canonical trees (ignored entries dropped, sorted, recursively) are equal, and the "
            "canonical tree does not depend on the listing order; the index names are visited in strictly ascending order; for every "
            "old cache index that is sound for the current tree (whatever its order, signature or truncation) the cached hash equals "
            "the uncached one and the new index is sound again; by induction over any history of states whose stat data change with "
            "the content, all cached hashes equal the uncached ones. The model is a hand-written transliteration of DirHasher / "
            "FileIndex; it is tied to the current source by a differential run on real directory trees (digest and new cache.bin "
            "compared byte for byte with the model running real SHA-1) and by constants regenerated from the source.",
    "note": "trusted: Lean kernel, harness/props/c11.py, tools/consts/c11.py, the Lean SHA-1 (self-tested), CPython os/struct/hashlib, "
            "the kernel's stat data; not covered: unreadable entries, Windows, ignoreDirs argument, size sum",
    "technique": "Lean 4 proof over hand-written model + differential correspondence on real file systems + independent canonical "
                 "serialisation as oracle",
}
