"""C08 - artifact packing is lossless, corruption is rejected, extraction is confined.

oracle (implementation only, no Lean):
  (i)   fidelity   generated trees -> real TarHelper._pack -> real TarHelper._extract; hashDirectory before/after,
                   an independent structural snapshot (names, types, modes, contents, link targets, hard-link
                   groups of regular files) and the audit bytes must be equal;
  (ii)  confinement hostile archives (grammar of member names / types / link names / orders) extracted by the real
                   TarHelper._extract inside a jail; the complete part of the jail outside the target workspace and
                   the audit file is snapshotted before and after (names, types, modes, contents, link targets,
                   inode numbers, link counts, mtimes of non-directories) and must be unchanged;
  (iii) corruption every truncation length / sampled bit flips / wrong formats / mismatching content through the real
                   LocalBuilder._downloadPackage + LocalArchive: either the download fails, or the accepted result is
                   hash-identical to what was packed and carries the same audit.
correspond: the hostile archives of (ii) (same generator, other sub-seed) through the Lean model `drv_c08`
            (Model/TarExtract.lean, dispatch `Cfg.current` = what tools/consts/c08.py finds in the source): outcome kind and the
            complete resulting tree of the jail (names, types, modes, contents, link targets, hard link groups) are compared;
            the member lists of real `_pack` runs against `packMembers`/`dispatch`; the acceptance decisions of (iii) against
            `acceptDownload`.
"""
import contextlib
import gzip
import hashlib
import io
import json
import os
import shutil
import signal
import stat
import struct
import tarfile

DRIVER = "drv_c08"
RULE = ("(i) trees of <=40 entries over regular files (sizes 0..70k, modes incl. setuid/sticky), empty and nested "
        "directories, relative/absolute/dangling symlinks, hard links (files, symlinks, fifos), fifos, names from a "
        "pool of unicode / shell-special / long / reserved ('content', 'meta', '.git') strings; (ii) archives of 1..12 "
        "members drawn from a grammar over member names (content/ prefix, '..', '.', empty components, absolute, "
        "unknown top level), types (reg, dir, sym, lnk, fifo, chr), link names (inside, '..', absolute, through "
        "symlinks), pax version (1, other, missing), audit member (present, missing, duplicated) plus scenario "
        "templates for symlink-then-write, hard-link escapes and duplicates, stateful sequences (re-pointed symlinks, repeated link names, "
        "type changes of one name, members through them), in jails with stale content, inbound "
        "symlinks and symlinked parents; (iii) every prefix length and sampled single bit flips of small artifacts. "
        "A case is distinct by its full input (tree / member list + jail variant / corrupted byte string) and "
        "non-trivial if it is not the empty tree resp. contains a content member resp. differs from the artifact.")
ASSUMPTIONS = [
    "gzip/tar codec (CPython tarfile, zlib) is trusted; only Bob's member dispatch, path filter and the builder's acceptance logic are modelled",
    "CPython 3.12 per-member extraction semantics (makedirs of parents, open-truncate-write, mkdir ignoring EEXIST, unlink+symlink, link, "
    "mkfifo, mknod, chown/chmod/utime following links, errorlevel=1) are assumed as transliterated in Model/TarExtract.lean and validated "
    "differentially, including the re-extraction fallback of TarFile.makelink for hard link members (`_find_link_target` among the earlier "
    "members, exhausted stream afterwards); the same fallback for SYMBOLIC link members, symlink loops, writes onto fifos, hard link names "
    "with a trailing slash are outside the model (reported as `unsupported`, still covered by the jail oracle)",
    "POSIX path resolution as modelled by `walk` (strict = kernel, lenient = os.path.realpath); absolute destination paths; umask 022",
    "hashDirectory is collision free on the compared trees (hypothesis `Function.Injective hashDir` of accepted_is_packed)",
    "HTTP/Jenkins transports are not exercised (LocalArchive only)",
]

UMASK = 0o022
TYPE_NAMES = {tarfile.REGTYPE: "reg", tarfile.AREGTYPE: "reg", tarfile.DIRTYPE: "dir", tarfile.SYMTYPE: "sym", tarfile.LNKTYPE: "lnk",
              tarfile.FIFOTYPE: "fifo", tarfile.CHRTYPE: "chr"}


def scratch_dir(ctx):
    """tmpfs is ~20x faster than the disk behind ctx.tmp for the thousands of small jails; the directory is removed by
    the caller (and by atexit as a safety net).  Falls back to ctx.tmp."""
    import atexit
    import tempfile
    d = getattr(ctx, "_c08_scratch", None)
    if d is None:
        try:
            d = tempfile.mkdtemp(prefix="bobverif-C08-%d-" % os.getpid(), dir="/dev/shm")
            atexit.register(shutil.rmtree, d, True)
        except OSError:
            d = ctx.tmp
        ctx._c08_scratch = d
    return d


def drop_scratch(ctx):
    d = getattr(ctx, "_c08_scratch", None)
    if d is not None and d != ctx.tmp:
        shutil.rmtree(d, ignore_errors=True)
    ctx._c08_scratch = None
PAD = "p/p/p/p/p/p"          # the jail lives six levels below the sandbox root: '..' chains of the grammar stay inside the sandbox


# ====================================================================== archives

def build_archive(members, vsn="1", compress=True):
    """hostile archive: members are dicts {name,type,link,mode,data}"""
    buf = io.BytesIO()
    pax = {} if vsn is None else {"bob-archive-vsn": vsn}
    out = gzip.GzipFile(fileobj=buf, mode="wb", compresslevel=6, mtime=0) if compress else buf
    with tarfile.open(None, "w", fileobj=out, format=tarfile.PAX_FORMAT, pax_headers=pax) as tar:
        for m in members:
            ti = tarfile.TarInfo(m["name"])
            ti.mode = m.get("mode", 0o644)
            ti.mtime = 1000000000
            ti.uid = os.geteuid()
            ti.gid = os.getegid()
            data = None
            t = m["type"]
            if t == "reg":
                data = m.get("data", "").encode("utf-8")
                ti.size = len(data)
            elif t == "dir":
                ti.type = tarfile.DIRTYPE
            elif t == "sym":
                ti.type = tarfile.SYMTYPE
                ti.linkname = m["link"]
            elif t == "lnk":
                ti.type = tarfile.LNKTYPE
                ti.linkname = m["link"]
            elif t == "fifo":
                ti.type = tarfile.FIFOTYPE
            elif t == "chr":
                ti.type = tarfile.CHRTYPE
                ti.devmajor, ti.devminor = 1, 3          # /dev/null: harmless even if something writes into it
            else:
                raise AssertionError(t)
            tar.addfile(ti, io.BytesIO(data) if data is not None else None)
    if compress:
        out.close()
    return buf.getvalue()


# ====================================================================== snapshots

def snapshot(root, with_times=True):
    """complete description of the tree below `root` (root itself excluded): rel path -> tuple"""
    out = {}
    stack = [root]
    while stack:
        d = stack.pop()
        try:
            names = os.listdir(d)
        except OSError:
            continue
        for n in names:
            p = os.path.join(d, n)
            st = os.lstat(p)
            rel = os.path.relpath(p, root)
            md = stat.S_IMODE(st.st_mode)
            if stat.S_ISDIR(st.st_mode):
                out[rel] = ("dir", md)
                stack.append(p)
            elif stat.S_ISLNK(st.st_mode):
                out[rel] = ("sym", os.readlink(p), st.st_ino, st.st_nlink, st.st_mtime_ns if with_times else 0)
            elif stat.S_ISREG(st.st_mode):
                with open(p, "rb") as f:
                    h = f.read()
                out[rel] = ("reg", md, h if len(h) <= 64 else hashlib.sha1(h).hexdigest(), st.st_ino, st.st_nlink,
                            st.st_mtime_ns if with_times else 0)
            elif stat.S_ISFIFO(st.st_mode):
                out[rel] = ("fifo", md, st.st_ino, st.st_nlink)
            elif stat.S_ISCHR(st.st_mode) or stat.S_ISBLK(st.st_mode):
                out[rel] = ("dev", md, st.st_rdev, st.st_ino, st.st_nlink)
            else:
                out[rel] = ("other", md)
    return out


def outside_part(snap, allowed_rel):
    """entries that are neither below one of `allowed_rel` nor equal to one of them"""
    res = {}
    for k, v in snap.items():
        if any(k == a or k.startswith(a + "/") for a in allowed_rel):
            continue
        res[k] = v
    return res


def diff_snap(a, b):
    return {k: (a.get(k), b.get(k)) for k in sorted(set(a) | set(b)) if a.get(k) != b.get(k)}


def structural(snap):
    """position independent view used for comparisons between two trees / with the model:
    per path (type, mode, content|target) and the hard link groups of non-directories"""
    ent, groups = {}, {}
    for k, v in snap.items():
        if v[0] == "dir":
            ent[k] = ("dir", v[1])
        elif v[0] == "sym":
            ent[k] = ("sym", v[1])
            groups.setdefault(v[2], []).append(k)
        elif v[0] == "reg":
            ent[k] = ("reg", v[1], v[2])
            groups.setdefault(v[3], []).append(k)
        elif v[0] == "fifo":
            ent[k] = ("fifo", v[1])
            groups.setdefault(v[2], []).append(k)
        elif v[0] == "dev":
            ent[k] = ("dev", v[1])
            groups.setdefault(v[3], []).append(k)
        else:
            ent[k] = v
    return ent, sorted(sorted(g) for g in groups.values() if len(g) > 1)


class _Timeout(Exception):
    pass


def _alarm(signum, frame):
    raise _Timeout()


@contextlib.contextmanager
def time_limit(sec):
    old = signal.signal(signal.SIGALRM, _alarm)
    signal.setitimer(signal.ITIMER_REAL, sec, 0.2)     # repeats: an alarm swallowed inside a callback must not disarm the limit
    try:
        yield
    finally:
        signal.setitimer(signal.ITIMER_REAL, 0, 0)
        signal.signal(signal.SIGALRM, old)


# ====================================================================== (ii) hostile archives

COMP = ["a", "b", "d", "f", "s", "t", "x", "h", "victim", "victim2", "out", "dist", "workspace", "sub", "EVIL", "back",
        "ä€", "sp ace", "$(x)", "-q'"]


def gen_relpath(r, depth=None, dots=0.07, allow_empty=True):
    n = r.choice([1, 1, 1, 2, 2, 3]) if depth is None else depth
    comps = []
    for _ in range(n):
        k = r.random()
        if k < dots:
            comps.append("..")
        elif k < dots + 0.02:
            comps.append(".")
        elif k < dots + 0.03 and allow_empty:
            comps.append("")
        else:
            comps.append(r.choice(COMP[:10]) if r.random() < 0.8 else r.choice(COMP))
    if sum(1 for c in comps if c == "..") > 3:
        comps = [c for c in comps if c != ".."]
    return "/".join(comps)


def gen_member_name(r, prev):
    k = r.random()
    if k < 0.76:
        if prev and r.random() < 0.35:
            base = r.choice(prev)                      # below / equal to an earlier member (duplicates, write-through)
            return base if r.random() < 0.4 else base + "/" + gen_relpath(r, 1)
        return "content/" + gen_relpath(r)
    if k < 0.79:
        return "content//" + gen_relpath(r, dots=0)    # absolute after stripping the prefix
    if k < 0.82:
        return r.choice(["content", "meta", "content/", "meta/", "meta/other", "meta/audit.json.gz/x"])
    if k < 0.85:
        return r.choice(["contentx/f", "contents", "content.d/f", "Content/f"])
    if k < 0.88:
        return r.choice(["other", "x/y", "../x", "/abs/x", "./content/f", ""])
    if k < 0.91:
        return "content/../" + gen_relpath(r)
    if k < 0.95:
        return "content/" + r.choice(["EVIL", "a", "nonex"]) + "/../" + r.choice(["", "../EVIL/../workspace/", "../workspace/"]) + gen_relpath(r, dots=0)
    return "content/" + gen_relpath(r, 3, dots=0.3)


def gen_symlink_target(r, jail):
    k = r.random()
    if k < 0.35:
        return gen_relpath(r, dots=0.0, allow_empty=False)
    if k < 0.6:
        return "/".join([".."] * r.randrange(1, 4) + [r.choice(["victim", "out", "out/victim2", "out/sub", "dist", "dist/workspace", "x"])])
    if k < 0.7:
        return r.choice([jail + "/victim", jail + "/out", jail + "/out/sub", jail + "/dist/workspace/a", jail + "/dist/workspace"])
    if k < 0.8:
        return "/nonexistent-c08/" + r.choice(COMP[:6])
    if k < 0.9:
        return r.choice([".", "..", "../..", "a/..", "nonex/../.."])
    return gen_relpath(r, 2, dots=0.4, allow_empty=False) or "x"


def gen_linkname(r, prev, jail):
    k = r.random()
    inside = [p for p in prev if p.startswith("content/")]
    if k < 0.55 and inside:
        return r.choice(inside)
    if k < 0.60:
        return "content/" + gen_relpath(r, dots=0.0, allow_empty=False)
    if k < 0.70:
        return "content/" + "/".join([".."] * r.randrange(1, 4)) + "/" + r.choice(["victim", "out/victim2", "dist/audit.json.gz", "out/lnk"])
    if k < 0.76:
        return "content/" + jail + r.choice(["/victim", "/out/victim2"])          # 'content//abs...' -> absolute
    if k < 0.84 and inside:
        return r.choice(inside) + "/" + r.choice(["victim", "victim2", "sub", "x", ".."])
    if k < 0.90:
        return r.choice(["meta/audit.json.gz", "victim", "../victim", "contentx/f", "content"])
    return "content/" + gen_relpath(r, 2, dots=0.35, allow_empty=False)


MODES_F = [0o644, 0o755, 0o600, 0o640, 0o777, 0o400]
MODES_D = [0o755, 0o700, 0o775, 0o750]


def gen_member(r, prev, jail):
    name = gen_member_name(r, prev)
    k = r.random()
    if k < 0.38:
        m = {"name": name, "type": "reg", "data": r.choice(["", "x", "pwn", "data-%d" % r.randrange(100)]), "mode": r.choice(MODES_F)}
    elif k < 0.58:
        m = {"name": name, "type": "dir", "mode": r.choice(MODES_D)}
    elif k < 0.76:
        m = {"name": name, "type": "sym", "link": gen_symlink_target(r, jail), "mode": 0o777}
    elif k < 0.92:
        m = {"name": name, "type": "lnk", "link": gen_linkname(r, prev, jail), "mode": r.choice(MODES_F)}
    elif k < 0.96:
        m = {"name": name, "type": "fifo", "mode": r.choice(MODES_F)}
    else:
        m = {"name": name, "type": "chr", "mode": r.choice(MODES_F)}
    return m


AUDIT_MEMBER = {"name": "meta/audit.json.gz", "type": "reg", "data": "AUDIT", "mode": 0o644}
CONTENT_DIR = {"name": "content", "type": "dir", "mode": 0o755}


def scenario(r, jail):
    """templates that reach the interesting dispatch paths often"""
    k = r.randrange(14)
    J = jail
    up = "/".join([".."] * r.randrange(1, 4))
    victim = r.choice(["victim", "out/victim2"])
    data = r.choice(["pwn", "", "zz"])
    if k == 0:      # hard link whose link name leaves content/ lexically, optionally followed by a write
        ms = [{"name": "content/h", "type": "lnk", "link": "content/../../" + victim, "mode": r.choice(MODES_F)}]
        if r.random() < 0.6:
            ms.append({"name": "content/h", "type": "reg", "data": data, "mode": 0o644})
    elif k == 1:    # hard link through a symlinked directory
        ms = [{"name": "content/s", "type": "sym", "link": r.choice(["../../out", J + "/out"])},
              {"name": "content/h", "type": "lnk", "link": "content/s/victim2", "mode": r.choice(MODES_F)},
              {"name": "content/h", "type": "reg", "data": data, "mode": 0o644}]
    elif k == 2:    # hard link to a symlink: attributes are applied through the link
        ms = [{"name": "content/s", "type": "sym", "link": r.choice(["../../victim", J + "/victim", "../../out/victim2"])},
              {"name": "content/h", "type": "lnk", "link": "content/s", "mode": r.choice([0o777, 0o600, 0o640])}]
    elif k == 3:    # relative symlink hard-linked at another depth
        ms = [{"name": "content/a/b/s", "type": "sym", "link": "../../victim"},
              {"name": "content/victim", "type": "reg", "data": "in", "mode": 0o644},
              {"name": "content/h", "type": "lnk", "link": "content/a/b/s", "mode": 0o777}]
    elif k == 4:    # symlink then write / mkdir / symlink through it
        ms = [{"name": "content/s", "type": "sym", "link": r.choice(["../../out", J + "/out", "..", "../.."])},
              gen_member(r, ["content/s"], J)]
        ms[1]["name"] = "content/s/" + r.choice(["new", "victim2", "back", "sub/x", "lnk"])
    elif k == 5:    # '..' across a directory that does not exist yet
        ms = [{"name": "content/" + r.choice(["../EVIL/../workspace/sub/x", "../EVIL/../workspace/x", "nonex/../../EVIL/../workspace/d/e",
                                               "../../out/EVIL/deep/../../../dist/workspace/sub/x"]),
               "type": r.choice(["reg", "dir", "sym"]), "data": "x", "link": "x", "mode": 0o755}]
    elif k == 6:    # duplicates of one name with changing types
        n = "content/" + r.choice(["f", "d/f"])
        ms = [dict(gen_member(r, [], J), name=n) for _ in range(r.randrange(2, 5))]
    elif k == 7:    # regular well-formed archive
        ms = [{"name": "content/d", "type": "dir", "mode": 0o755}, {"name": "content/d/f", "type": "reg", "data": "1", "mode": 0o640},
              {"name": "content/d/g", "type": "lnk", "link": "content/d/f", "mode": 0o640},
              {"name": "content/l", "type": "sym", "link": "d/f"}, {"name": "content/e", "type": "dir", "mode": 0o700}]
        r.shuffle(ms) if r.random() < 0.3 else None
    elif k == 8:    # symlink to an inside directory, then members through it (legal)
        ms = [{"name": "content/d", "type": "dir", "mode": 0o755}, {"name": "content/s", "type": "sym", "link": r.choice(["d", "./d", "d/../d"])},
              {"name": "content/s/f", "type": r.choice(["reg", "dir", "fifo", "sym"]), "data": "q", "link": "../x", "mode": 0o644}]
    elif k == 9:    # devices and fifos
        ms = [{"name": "content/n", "type": "chr", "mode": 0o600}, {"name": "content/p", "type": "fifo", "mode": 0o644},
              {"name": "content/" + r.choice(["n", "q"]), "type": r.choice(["dir", "sym", "chr"]), "link": "p", "mode": 0o644}]
    elif k == 10:   # hard link inside, then overwrite through it
        ms = [{"name": "content/f", "type": "reg", "data": "orig", "mode": 0o600},
              {"name": "content/g", "type": "lnk", "link": r.choice(["content/f", "content/./f", "content/x/../f", "content/f/"]), "mode": 0o644},
              {"name": "content/" + r.choice(["g", "f"]), "type": "reg", "data": "new", "mode": 0o644}]
    elif k == 12:   # hard link onto an existing name (tarfile would fall back to re-extracting another member)
        ms = [{"name": "content/f", "type": "reg", "data": "F", "mode": 0o644}, {"name": "content/g", "type": r.choice(["reg", "sym", "dir"]), "data": "G", "link": "f", "mode": 0o644},
              {"name": "content/g", "type": "lnk", "link": "content/f", "mode": r.choice(MODES_F)}]
    elif k == 13:   # the re-extraction fallback of tarfile.makelink: an earlier symlink member of the same (normalised) name as the link
        #             source is re-created at the hard link's place and the attributes are applied through it
        ms = [{"name": "content/e", "type": "dir", "mode": 0o755}, {"name": "content/e2", "type": "dir", "mode": 0o755},
              {"name": "content/d", "type": "sym", "link": "e"}, {"name": "content/d/s", "type": "sym", "link": "../../" + victim},
              {"name": "content/d", "type": "sym", "link": "e2"}, {"name": "content/e2/s", "type": "reg", "data": "S", "mode": 0o644},
              {"name": "content/h", "type": "reg", "data": "H", "mode": 0o644},
              {"name": "content/h", "type": "lnk", "link": "content/d/s", "mode": r.choice([0o777, 0o640])}]
    else:           # replace an outside symlink that points into the workspace
        ms = [{"name": "content/s", "type": "sym", "link": r.choice(["../../out", J + "/out"])},
              {"name": "content/s/back", "type": r.choice(["sym", "sym", "dir", "reg", "lnk", "fifo"]), "link": r.choice(["/nonexistent-c08/x", "content/x"]),
               "data": "b", "mode": 0o644}]
    return ms


def scenario_fallback(r, jail):
    """archives that reach the re-extraction fallback of tarfile.makelink for a HARD link member (os.link not possible:
    tarfile looks the link name up among the EARLIER members of the archive and extracts that member at the link's path)
      * target name absent on disk but present as an earlier member (behind a re-pointed symlinked directory, a dangling
        symlink member, the un-extracted `content` / `meta` / audit members: link names across the content/ boundary),
      * target replaced by a later member of another type before the link comes,
      * os.link fails although source and checks are fine (link name below a regular file: ENOTDIR), which is the way into
        the fallback that the current dispatch leaves open,
      * chains: the found member is itself a hard link."""
    J = jail
    victim = r.choice(["../../victim", "../../out/victim2", J + "/victim"])
    mode = r.choice([0o777, 0o640, 0o600])
    tmode = r.choice([0o700, 0o751, 0o644])
    found = r.choice(["sym", "dir", "fifo", "reg", "lnk", "chr", "lnk2", "none"])
    k = r.choice([0, 1, 2, 3, 4, 4, 4, 5])

    def target_member(name):
        """the member the fallback will find under `name` (renamed name space)"""
        if found == "sym":
            return [{"name": "content/" + name, "type": "sym", "link": r.choice([victim, "e2", "nowhere"])}]
        if found == "dir":
            return [{"name": "content/" + name, "type": "dir", "mode": tmode}]
        if found in ("fifo", "chr"):
            return [{"name": "content/" + name, "type": found, "mode": tmode}]
        if found == "reg":
            return [{"name": "content/" + name, "type": "reg", "data": "T", "mode": tmode}]
        if found == "lnk":      # chain: hard link -> earlier directory / symlink member
            inner = r.choice(["dir", "sym", "reg"])
            return [{"name": "content/t0", "type": inner, "data": "t0", "link": victim, "mode": tmode},
                    {"name": "content/" + name, "type": "lnk", "link": "content/t0", "mode": r.choice(MODES_F)}]
        if found == "lnk2":     # chain whose inner link name is not in the archive
            return [{"name": "content/t0", "type": "reg", "data": "t0", "mode": 0o644},
                    {"name": "content/" + name, "type": "lnk", "link": "content/t0", "mode": r.choice(MODES_F)},
                    {"name": "content/t0", "type": "lnk", "link": "content/nonex", "mode": 0o644}]
        return []
    if k == 0:      # behind a symlinked directory that is re-pointed: `d/s` names the earlier member, the disk has e2/s
        ms = [{"name": "content/e", "type": "dir", "mode": 0o755}, {"name": "content/e2", "type": "dir", "mode": 0o755},
              {"name": "content/d", "type": "sym", "link": "e"}] + target_member("d/s") + \
             [{"name": "content/d", "type": "sym", "link": "e2"}]
        if r.random() < 0.7:
            ms.append({"name": "content/e2/s", "type": "reg", "data": "S", "mode": 0o644})
        ms.append({"name": "content/h", "type": "reg", "data": "H", "mode": 0o644})
        ms.append({"name": r.choice(["content/h/x", "content/h/x", "content/h2", "content/h"]), "type": "lnk", "link": "content/d/s", "mode": mode})
    elif k == 1:    # the earlier member is not on disk at all: names across the content/ boundary
        ln = r.choice(["content/content", "content/meta", "content/meta/audit.json.gz", "content/./content", "content/x/../meta"])
        ms = [{"name": "meta", "type": r.choice(["dir", "sym", "fifo"]), "link": victim, "mode": tmode}] if r.random() < 0.5 else []
        ms.append({"name": "content/h", "type": "lnk", "link": ln, "mode": mode})
    elif k == 2:    # target replaced by a later member of another type
        ms = [{"name": "content/f", "type": "reg", "data": "F", "mode": 0o644}] + target_member("f") + \
             [{"name": "content/h", "type": "lnk", "link": r.choice(["content/f", "content/./f", "content/f/.", "content/x/../f"]), "mode": mode}]
    elif k == 3:    # dangling / outside symlink member as link target: absent for os.path.exists, present in the archive
        ms = [{"name": "content/s", "type": "sym", "link": r.choice(["nowhere", victim, "../../nonex"])},
              {"name": "content/h", "type": "lnk", "link": "content/s", "mode": mode}]
    elif k == 4:    # os.link fails below a regular file, every kind of found member
        ms = [{"name": "content/e", "type": "dir", "mode": 0o755}, {"name": "content/e2", "type": "dir", "mode": 0o755},
              {"name": "content/d", "type": "sym", "link": "e"}] + target_member("d/s") + \
             [{"name": "content/d", "type": "sym", "link": "e2"}, {"name": "content/e2/s", "type": "reg", "data": "S", "mode": 0o644},
              {"name": "content/h", "type": "reg", "data": "H", "mode": 0o644},
              {"name": "content/h/x", "type": "lnk", "link": "content/d/s", "mode": mode}]
    else:           # link target only exists as an earlier member of the same name as the link itself / a later one
        ms = target_member("h") + [{"name": "content/h", "type": "lnk", "link": r.choice(["content/h", "content/g"]), "mode": mode},
                                   {"name": "content/g", "type": "reg", "data": "G", "mode": 0o644}]
    if r.random() < 0.5:
        ms.append({"name": "content/z", "type": "reg", "data": "after", "mode": 0o644})      # never extracted after a fallback
    return ms


def gen_stateful(r, jail):
    """archives whose members depend on what earlier members left behind: a small base tree, then a random sequence over
    * SYM members that (re-)point an already extracted symlink of the same name to inside / outside targets,
    * LNK members that use the same link name repeatedly (before and after such a re-pointing),
    * members of one name with changing types (REG->SYM, SYM->DIR, DIR->SYM, ...),
    * members that go through those names (write / mkdir / link below them, overwrite through a hard link)."""
    J = jail
    fname, outside = r.choice([("victim2", "../../out"), ("victim2", J + "/out"), ("victim", "../.."), ("victim", J),
                               ("deep", "../../out/sub"), ("f", "../../out")])
    base = r.choice(["real", "e"])
    link = r.choice(["d", "s"])
    inside = [base, "e2", "./" + base, base + "/../" + base] if r.random() < 0.2 else [base, "e2"]
    ms = [{"name": "content/" + base, "type": "dir", "mode": 0o755}] if r.random() < 0.7 else []
    ms.append({"name": "content/%s/%s" % (base, fname), "type": "reg", "data": "in", "mode": 0o644})
    if r.random() < 0.5:
        ms.append({"name": "content/e2", "type": "dir", "mode": 0o755})
    if r.random() < 0.8:
        ms.append({"name": "content/" + link, "type": "sym", "link": r.choice(inside)})
    hl = 0
    hls = []
    changed = False
    for _ in range(r.randrange(3, 8)):
        k = r.random()
        if changed and k >= 0.38 and r.random() < 0.5:
            k = r.choice([0.1, 0.1, 0.9])      # use what the previous member has just changed
        changed = 0.38 <= k < 0.66 or 0.74 <= k < 0.87
        if k < 0.38:        # hard link through the symlink (same link name every time) or directly
            hl += 1
            h = "content/h%d" % hl if r.random() < 0.85 or not hls else r.choice(hls)
            hls.append(h)
            ms.append({"name": h, "type": "lnk", "link": "content/%s/%s" % (link if r.random() < 0.8 else base, fname), "mode": r.choice(MODES_F)})
        elif k < 0.66:      # (re-)point the symlink
            ms.append({"name": "content/" + link, "type": "sym", "link": outside if r.random() < 0.6 else r.choice(inside)})
        elif k < 0.74 and hls:      # write through an earlier hard link
            ms.append({"name": r.choice(hls), "type": "reg", "data": "pwn", "mode": 0o644})
        elif k < 0.87:      # the same name with another type
            n = r.choice([link, base, "e2", fname])
            t = r.choice(["reg", "dir", "sym", "fifo"])
            ms.append({"name": "content/" + n, "type": t, "data": "T", "link": r.choice(inside + [outside, base + "/" + fname]), "mode": 0o755})
        else:               # through the name
            t = r.choice(["reg", "dir", "sym", "lnk"])
            ms.append({"name": "content/%s/%s" % (r.choice([link, base]), r.choice([fname, "new", "sub/x"])), "type": t, "data": "thru",
                       "link": ("content/%s/%s" % (base, fname)) if t == "lnk" else r.choice(["x", outside]), "mode": 0o644})
    return ms


def gen_hostile(r, jail):
    """-> (members, vsn)"""
    k0 = r.random()
    if k0 < 0.12:
        ms = scenario_fallback(r, jail)
        if r.random() < 0.2:
            ms.insert(r.randrange(len(ms) + 1), gen_member(r, [m["name"] for m in ms], jail))
    elif k0 < 0.36:
        ms = gen_stateful(r, jail)
    elif k0 < 0.58:
        ms = scenario(r, jail)
        if r.random() < 0.3:
            ms.insert(r.randrange(len(ms) + 1), gen_member(r, [m["name"] for m in ms], jail))
    else:
        ms = []
        for _ in range(r.randrange(1, 7)):
            ms.append(gen_member(r, [m["name"] for m in ms], jail))
    head = []
    k = r.random()
    if k < 0.8:
        head.append(dict(AUDIT_MEMBER, data="AUDIT%d" % r.randrange(3)))
    elif k < 0.85:
        head.append(dict(AUDIT_MEMBER, type=r.choice(["dir", "sym", "fifo"]), link="x"))
    if r.random() < 0.85:
        head.append(dict(CONTENT_DIR))
    ms = head + ms
    if r.random() < 0.1:
        ms.insert(r.randrange(len(ms) + 1), dict(AUDIT_MEMBER, data="SECOND"))
    if r.random() < 0.1:
        r.shuffle(ms)
    # a regular member onto an earlier fifo of the same name would block in open(): keep the generator away from it
    fifos = set()
    out = []
    norm = lambda n: os.path.normpath("/" + n)
    for m in ms:
        if m["type"] == "fifo":
            fifos.add(norm(m["name"]))
        elif m["type"] == "reg" and norm(m["name"]) in fifos:
            m = dict(m, type="dir")
        m.setdefault("link", "")
        m.setdefault("data", "")
        m.setdefault("mode", 0o644)
        out.append(m)
    vsn = "1"
    k = r.random()
    if k < 0.04:
        vsn = None
    elif k < 0.08:
        vsn = r.choice(["0", "2", "", "1 "])
    return out[:12], vsn


def gen_jail_variant(r):
    return {"inbound": r.random() < 0.5, "alias": r.random() < 0.15, "stale": r.random() < 0.3,
            "stale_audit": r.choice([None, None, "file", "sym", "dir"]), "ws_is_link": r.random() < 0.05}


def make_jail(base, var):
    """sandbox layout:  <base>/p/p/p/p/p/p/jail/{victim,out/...,dist/{workspace,audit.json.gz}}
    returns (sandbox root, jail, dest as passed to _extract, audit as passed, real dest rel. to root, real audit rel. to root)"""
    shutil.rmtree(base, ignore_errors=True)
    jail = os.path.join(base, PAD, "jail")
    os.makedirs(os.path.join(jail, "dist"))
    os.makedirs(os.path.join(jail, "out", "sub"))

    def put(p, data, mode):
        with open(p, "w") as f:
            f.write(data)
        os.chmod(p, mode)
        os.utime(p, ns=(5000000000, 5000000000))
    put(os.path.join(jail, "victim"), "precious", 0o600)
    put(os.path.join(jail, "out", "victim2"), "precious2", 0o640)
    put(os.path.join(jail, "out", "sub", "deep"), "deep", 0o644)
    os.link(os.path.join(jail, "out", "victim2"), os.path.join(jail, "out", "victim2.hl"))
    os.symlink("victim2", os.path.join(jail, "out", "lnk"))
    os.symlink("nowhere", os.path.join(jail, "out", "dangling"))
    if var["inbound"]:
        os.symlink("../dist/workspace/x", os.path.join(jail, "out", "back"))
    distname = "dist"
    if var["alias"]:
        os.symlink("dist", os.path.join(jail, "alias"))
        distname = "alias"
    ws = os.path.join(jail, "dist", "workspace")
    if var["ws_is_link"]:
        os.makedirs(os.path.join(jail, "out", "oldws"))
        put(os.path.join(jail, "out", "oldws", "keep"), "keep", 0o644)
        os.symlink("../out/oldws", ws)
    elif var["stale"]:
        os.makedirs(os.path.join(ws, "old", "dir"))
        put(os.path.join(ws, "old", "f"), "stale", 0o644)
        os.symlink("../../victim", os.path.join(ws, "oldlink"))
    au = os.path.join(jail, "dist", "audit.json.gz")
    if var["stale_audit"] == "file":
        put(au, "OLD", 0o644)
    elif var["stale_audit"] == "sym":
        os.symlink("../victim", au)
    elif var["stale_audit"] == "dir":
        os.makedirs(os.path.join(au, "x"))
    dest = os.path.join(jail, distname, "workspace")
    audit = os.path.join(jail, distname, "audit.json.gz")
    rel = os.path.relpath(jail, base)
    return jail, dest, audit, os.path.join(rel, "dist", "workspace"), os.path.join(rel, "dist", "audit.json.gz")


ERR_PATTERNS = [("Unsupported binary artifact", "unsupportedArtifact"), ("invalid hard link in archive", "invalidHardLink"),
                ("contained invalid file name", "filterName"), ("contained file outside of workspace", "filterParent"),
                ("unsafe hard link in archive", "filterLink"),
                ("Binary artifact contained unknown file", "unknownFile"), ("Refusing to extract", "filter"),
                ("Error removing", "removeError")]


def classify_exc(e):
    from bob.errors import BuildError
    if isinstance(e, BuildError):
        msg = str(e.slogan)
        for pat, kind in ERR_PATTERNS:
            if pat in msg:
                return kind
        return "builderror"
    if isinstance(e, tarfile.StreamError):
        return "streamerror"
    if isinstance(e, tarfile.TarError):
        return "tarerror"
    if isinstance(e, OSError):
        return "oserror"
    if isinstance(e, KeyError):
        return "keyerror"
    if isinstance(e, _Timeout):
        return "timeout"
    return "internal:" + type(e).__name__


FALLBACK_LOG = []      # what tarfile's `_find_link_target` was asked for during the last run_extract (observation only)


def _spy_find_link_target(orig):
    def spy(self, tarinfo):
        kind = "lnk" if tarinfo.islnk() else "sym"
        try:
            m = orig(self, tarinfo)
        except KeyError:
            FALLBACK_LOG.append(kind + "->notfound")
            raise
        FALLBACK_LOG.append(kind + "->" + TYPE_NAMES.get(m.type, "?"))
        return m
    return spy


def run_extract(data, dest, audit):
    """the real extraction; returns outcome kind"""
    from bob.archive import TarHelper
    old = os.umask(UMASK)
    del FALLBACK_LOG[:]
    orig = tarfile.TarFile._find_link_target
    tarfile.TarFile._find_link_target = _spy_find_link_target(orig)
    try:
        with time_limit(10):
            TarHelper()._extract(io.BytesIO(data), audit, dest)
        return "ok"
    except BaseException as e:  # noqa - classified, never swallowed silently
        if isinstance(e, (KeyboardInterrupt, SystemExit)):
            raise
        return "err:" + classify_exc(e)
    finally:
        tarfile.TarFile._find_link_target = orig
        os.umask(old)


def run_hostile(base, members, vsn, var):
    """one hostile case on the implementation: returns (outcome, snapshot before, snapshot after, ws_rel, audit_rel, jail)"""
    jail, dest, audit, ws_rel, audit_rel = make_jail(base, var)
    before = snapshot(base)
    try:
        data = build_archive(members, vsn)
    except Exception as e:  # noqa - a member the tar writer refuses (e.g. name encoding) is not a case
        return None
    out = run_extract(data, dest, audit)
    after = snapshot(base)
    return out, before, after, ws_rel, audit_rel, jail


def allowed_rel(var, ws_rel, audit_rel):
    """what extraction may touch: the workspace, the audit file.  When the workspace path is a symlink planted by the caller,
    removePath() unlinks it and a new directory is created: still the same name."""
    return [ws_rel, audit_rel]


def canon_members(members):
    return [[m["name"], m["type"], m.get("link", ""), m.get("mode", 0), m.get("data", "")] for m in members]


def comps_of(name):
    return [c for c in name.split("/")]


def classify_violation(base, members, vsn, var, changed):
    """name the class of an outside modification by removing one ingredient at a time (implementation only)"""
    def still(ms, v):
        res = run_hostile(base, ms, vsn, v)
        if res is None:
            return False
        out, before, after, ws_rel, audit_rel, _ = res
        al = allowed_rel(v, ws_rel, audit_rel)
        return bool(diff_snap(outside_part(before, al), outside_part(after, al)))
    def dotted(m):
        n = m["name"]
        n = n[8:] if n.startswith("content/") else n
        return ".." in n.split("/")
    new_dir = any(a is None and b is not None and b[0] == "dir" for a, b in changed.values())
    no_dots = [m for m in members if not dotted(m)]
    no_lnk = [m for m in members if m["type"] != "lnk"]
    tests = [("dotdot-through-missing-directory-creates-outside-directory", no_dots, var),
             ("hardlink-linkname-escapes-content", no_lnk, var)]
    if not new_dir:
        tests.reverse()
    for sig, ms, v in tests:
        if len(ms) != len(members) and not still(ms, v):
            return sig
    both = [m for m in no_lnk if not dotted(m)]
    if len(both) != len(members) and not still(both, var):
        return tests[0][0]
    if var.get("inbound") and not still(both, dict(var, inbound=False)):
        return "symlink-member-replaces-outside-symlink-pointing-into-workspace"
    return "outside-modified:" + ",".join(sorted({(b or a)[0] for a, b in changed.values()}))


def check_confined(ctx, base, members, vsn, var, record=True):
    """oracle (ii) on one case; returns the run result"""
    res = run_hostile(base, members, vsn, var)
    if res is None:
        return None
    out, before, after, ws_rel, audit_rel, jail = res
    al = allowed_rel(var, ws_rel, audit_rel)
    changed = diff_snap(outside_part(before, al), outside_part(after, al))
    if record and out == "ok":
        # the documented format: pax version 1; only content/..., meta/audit.json.gz, content, meta.  (Only the first member is
        # judged: tarfile's link fallback may silently drop the rest of a stream, which the builder's hash check catches later.)
        case = {"kind": "hostile", "members": members, "vsn": vsn, "jail": var}
        first = members[0]["name"] if members else "content"
        if vsn != "1":
            ctx.violation("an artifact with pax header bob-archive-vsn=%r was extracted" % (vsn,), case, "unsupported-version-accepted")
        elif not (first.startswith("content/") or first.rstrip("/") in ("content", "meta") or first == "meta/audit.json.gz"):
            ctx.violation("an artifact whose first member is the unknown entry %r was extracted" % first, case, "unknown-member-accepted")
    if changed and record:
        sig = classify_violation(base, members, vsn, var, changed)
        seen = ctx.__dict__.setdefault("_c08_sigs", {})
        seen[sig] = seen.get(sig, 0) + 1
        ctx.count("outside_modification", sig)
        if seen[sig] > 1:           # one concrete failing input per class is kept (the core stores at most 50 violations)
            return res
        what = "extraction modified paths outside the workspace and audit file: " + "; ".join(
            "%s: %r -> %r" % (k, a, b) for k, (a, b) in list(changed.items())[:3])
        ctx.violation(what, {"kind": "hostile", "members": members, "vsn": vsn, "jail": var}, sig)
    return res


# ====================================================================== (i) fidelity

NAME_POOL = ["a", "b", "file.txt", "sp ace", "tab\there", "new\nline", "$(touch x)", "`id`", "semi;colon", "amp&", "quote'", 'dq"', "star*", "back\\slash",
             "-rf", " lead", "trail ", "ä", "ä", "€uro", "日本語", "\U0001F600", "content", "meta", ".git", ".svn", "BaseDirList.txt", "audit.json.gz",
             "x" * 101, "y" * 200, "..."  , ".hidden", "UPPER", "upper", "~", "#", "%41", "{a,b}", "[x]", "?", "|", "<>", "!", "=", ":", ","]


def gen_tree(r, root, size=None):
    """create a random tree below root (which must not exist); returns number of entries"""
    os.makedirs(root)
    dirs = [root]
    files = []
    links = []
    fifos = []
    n = r.choice([0, 1, 3, 8, 15, 25, 40]) if size is None else size
    used = {root: set()}
    made = 0
    for _ in range(n):
        d = r.choice(dirs)
        nm = r.choice(NAME_POOL) if r.random() < 0.7 else "n%d" % r.randrange(1000)
        if nm in used[d]:
            continue
        p = os.path.join(d, nm)
        if len(os.fsencode(p)) > 3500:
            continue
        used[d].add(nm)
        k = r.random()
        try:
            if k < 0.22:
                os.mkdir(p)
                dirs.append(p)
                used[p] = set()
            elif k < 0.62:
                size_ = r.choice([0, 0, 1, 5, 100, 511, 512, 513, 5000, 16384, 70000])
                with open(p, "wb") as f:
                    f.write(bytes(r.getrandbits(8) for _ in range(min(size_, 600))) * (1 if size_ <= 600 else size_ // 600))
                files.append(p)
            elif k < 0.78:
                tgt = r.choice(["a", "../a", "/abs/olute", "nonexistent", ".", "..", "ä/€", "x" * 150, os.path.relpath(r.choice(dirs), d),
                                os.path.relpath(r.choice(files), d) if files else "f"])
                os.symlink(tgt, p)
                links.append(p)
            elif k < 0.90 and files:
                os.link(r.choice(files), p)
                files.append(p)
            elif k < 0.94 and links:
                os.link(r.choice(links), p, follow_symlinks=False)
                links.append(p)
            elif k < 0.97:
                os.mkfifo(p)
                fifos.append(p)
            elif fifos:
                os.link(r.choice(fifos), p)
            else:
                os.mkdir(p)
                dirs.append(p)
                used[p] = set()
            made += 1
        except OSError:
            continue
    for f in set(files):
        os.chmod(f, r.choice([0o644, 0o755, 0o600, 0o444, 0o640, 0o4755, 0o2755, 0o777, 0o400, 0o664]))
    for d in dirs[1:]:
        os.chmod(d, r.choice([0o755, 0o700, 0o775, 0o1777, 0o2755, 0o750]))
    for p in files + dirs[1:]:
        if r.random() < 0.3:
            os.utime(p, ns=(r.randrange(1, 2 ** 40), r.randrange(1, 2 ** 40)))
    return made


def read_names(data):
    """(name, type, linkname) of every member as the tar reader reports them"""
    with tarfile.open(fileobj=io.BytesIO(data), mode="r:*") as tar:
        return [(ti.name, TYPE_NAMES.get(ti.type, "?"), ti.linkname) for ti in tar], dict(tar.pax_headers)


def pack_layout(data, src_snap):
    """the documented layout of an artifact: pax version 1, first the audit trail below meta/, then the `content` directory,
    then exactly the entries of the tree below content/ (hard links name an earlier entry below content/)"""
    names, pax = read_names(data)
    if pax.get("bob-archive-vsn") != "1":
        return "pax header bob-archive-vsn is %r" % pax.get("bob-archive-vsn")
    if len(names) < 2 or names[0][:2] != ("meta/audit.json.gz", "reg") or names[1][:2] != ("content", "dir"):
        return "first members are %r" % (names[:2],)
    rest = names[2:]
    bad = [n for n in rest if not n[0].startswith("content/")]
    if bad:
        return "member outside content/: %r" % (bad[0],)
    rels = [n[0][8:] for n in rest]
    if sorted(rels) != sorted(src_snap):
        return "members differ from the tree: %r" % (sorted(set(rels) ^ set(src_snap))[:3],)
    for i, (n, t, l) in enumerate(rest):
        if t == "lnk" and (not l.startswith("content/") or l[8:] not in rels[:i]):
            return "hard link %r -> %r does not name an earlier member" % (n, l)
    return None


def check_fidelity(ctx, work, seed):
    """oracle (i) on one generated tree (everything derives from `seed`)"""
    from bob.archive import TarHelper
    from bob.utils import hashDirectory
    import random
    shutil.rmtree(work, ignore_errors=True)
    os.makedirs(work)
    src = os.path.join(work, "src", "workspace")
    os.makedirs(os.path.dirname(src))
    r = random.Random(seed)
    n = gen_tree(r, src)
    audit_src = os.path.join(work, "src", "audit.json.gz")
    audit_bytes = bytes(r.getrandbits(8) for _ in range(r.choice([0, 1, 40, 700])))
    with open(audit_src, "wb") as f:
        f.write(audit_bytes)
    h0 = hashDirectory(src)
    s0 = snapshot(src, with_times=False)
    buf = io.BytesIO()
    old = os.umask(UMASK)
    try:
        try:
            with time_limit(30):
                TarHelper()._pack(None, buf, audit_src, src)
        except _Timeout:
            ctx.skip("a pack/extract round trip hit the 30 s limit (machine load)")
            return
        except Exception as e:  # noqa
            ctx.violation("_pack failed on a generated tree: %s: %s" % (type(e).__name__, str(e)[:200]), {"kind": "fidelity", "tree_seed": seed},
                          "fidelity-pack-error")
            return
        dst = os.path.join(work, "dst", "workspace")
        audit_dst = os.path.join(work, "dst", "audit.json.gz")
        os.makedirs(os.path.dirname(dst))
        if r.random() < 0.3:      # stale content must not survive
            os.makedirs(os.path.join(dst, "stale"))
            with open(audit_dst, "wb") as f:
                f.write(b"stale")
        try:
            with time_limit(30):
                TarHelper()._extract(io.BytesIO(buf.getvalue()), audit_dst, dst)
            err = None
        except _Timeout:
            ctx.skip("a pack/extract round trip hit the 30 s limit (machine load)")
            return
        except Exception as e:  # noqa
            err = "%s: %s" % (type(e).__name__, e)
    finally:
        os.umask(old)
    case = {"kind": "fidelity", "tree_seed": seed}
    lay = pack_layout(buf.getvalue(), s0)
    if lay is not None:
        ctx.violation("artifact layout: " + lay, case, "pack-layout")
    ctx.case(("fid", seed), nontrivial=n > 0, sample={"fidelity_tree_seed": seed, "entries": n, "artifact_bytes": len(buf.getvalue())})
    ctx.count("fidelity_entries", "0" if n == 0 else "1-9" if n < 10 else "10+")
    if err is not None:
        ctx.violation("artifact packed by _pack is not extractable: " + err, case, "fidelity-extract-error")
        return
    h1 = hashDirectory(dst)
    s1 = snapshot(dst, with_times=False)
    e0, g0 = structural(s0)
    e1, g1 = structural(s1)
    reg = lambda gs, ent: sorted(g for g in gs if ent[g[0]][0] == "reg")
    with open(audit_dst, "rb") as f:
        a1 = f.read()
    if h0 != h1:
        d = {k: (e0.get(k), e1.get(k)) for k in set(e0) | set(e1) if e0.get(k) != e1.get(k)}
        ctx.violation("directory hash differs after pack/extract: %s" % (list(d.items())[:3],), case, "fidelity-hash-differs")
    elif e0 != e1:
        d = {k: (e0.get(k), e1.get(k)) for k in set(e0) | set(e1) if e0.get(k) != e1.get(k)}
        ctx.violation("tree differs after pack/extract although the directory hash is equal: %s" % (list(d.items())[:3],), case,
                      "fidelity-tree-differs")
    elif reg(g0, e0) != reg(g1, e1):
        ctx.violation("hard link groups of regular files differ after pack/extract: %r vs %r" % (reg(g0, e0)[:3], reg(g1, e1)[:3]), case,
                      "fidelity-hardlinks-differ")
    if a1 != audit_bytes:
        ctx.violation("audit trail bytes differ after pack/extract", case, "fidelity-audit-differs")


# ====================================================================== oracle

def oracle_fidelity(ctx, frac=0.12):
    import time
    r = ctx.subrng("fidelity")
    work = os.path.join(scratch_dir(ctx), "fid")
    for i in range(ctx.scale(200, 10000)):
        if time.time() > phase_deadline(ctx, frac) and i >= 25:
            ctx.skip("fidelity stream stopped after %d trees (time budget / machine load)" % i) if i < 100 else None
            break
        check_fidelity(ctx, work, r.getrandbits(48))
    shutil.rmtree(work, ignore_errors=True)


def oracle_hostile(ctx, tag, n, frac):
    import time
    r = ctx.subrng(tag)
    base = os.path.join(scratch_dir(ctx), "jail-" + tag)
    for i in range(n):
        if time.time() > phase_deadline(ctx, frac) and i >= 150:
            ctx.skip("hostile archive stream stopped after %d archives (time budget / machine load)" % i) if i < n // 3 else None
            break
        var = gen_jail_variant(r)
        jail = os.path.join(base, PAD, "jail")
        members, vsn = gen_hostile(r, jail)
        res = check_confined(ctx, base, members, vsn, var)
        if res is None:
            continue
        ctx.case(("hostile", canon_members(members), vsn, sorted(var.items())), nontrivial=any(m["name"].startswith("content/") for m in members),
                 sample={"members": members, "vsn": vsn, "jail": var, "outcome": res[0]})
        ctx.count("hostile_outcome", res[0])
    shutil.rmtree(base, ignore_errors=True)


def _timed(ctx, name, fn):
    import time
    t = time.time()
    try:
        return fn()
    finally:
        ctx.notes.setdefault("c08_phase_seconds", {})[name] = round(time.time() - t, 1)


def oracle(ctx):
    try:
        _timed(ctx, "start_offset", lambda: phase_deadline(ctx, 0))
        ctx.notes["c08_phase_seconds"]["before_oracle"] = round(ctx._c08_phase0 - ctx.t0, 1)
        _timed(ctx, "fidelity", lambda: oracle_fidelity(ctx))
        _timed(ctx, "hostile", lambda: oracle_hostile(ctx, "hostile", ctx.scale(1500, 60000), 0.34))
        ctx._c08_dl = _timed(ctx, "corruption", lambda: oracle_corruption(ctx))
    finally:
        drop_scratch(ctx)


def replay(ctx, case):
    k = case.get("kind")
    if k == "fidelity":
        check_fidelity(ctx, os.path.join(scratch_dir(ctx), "fid"), case["tree_seed"])
    elif k is None and "spec" in case:
        res = corruption_worker((os.path.join(scratch_dir(ctx), "dl-replay"), case["tree_seed"], [tuple(case["spec"])]))
        for x in res:
            x["tree_seed"] = case["tree_seed"]
            judge_corruption(ctx, x, "replay")
        drop_scratch(ctx)
    elif k == "hostile":
        check_confined(ctx, os.path.join(scratch_dir(ctx), "jail-replay"), case["members"], case["vsn"], case["jail"])
    drop_scratch(ctx)


# ====================================================================== correspondence with the Lean model

FUEL = 400
CFG_ASIS = {"fuel": FUEL, "canon": False, "parent": False, "lnk": 0}
CFG_REPAIRED = {"fuel": FUEL, "canon": True, "parent": True, "lnk": 2}


def model_cfg(ctx):
    """the dispatch of the current source: `Cfg.current` of the model, built from Generated/ConstsC08.lean, which
    tools/consts/c08.py regenerates from the source on every run"""
    return {"fuel": FUEL, "current": True}


def fs_request(base, snap):
    """model file system (rooted at /) of the sandbox `base` with snapshot `snap`"""
    root = [c for c in base.split("/") if c]
    names = [{"p": root[:i], "t": "dir", "mode": 0o755} for i in range(len(root) + 1)]
    inodes = {}
    for rel, v in snap.items():
        p = root + rel.split("/")
        if v[0] == "dir":
            names.append({"p": p, "t": "dir", "mode": v[1]})
            continue
        if v[0] == "sym":
            ino, rec = v[2], {"t": "sym", "target": v[1], "mode": 0o777}
        elif v[0] == "reg":
            data = v[2]
            rec = {"t": "file", "data": data.decode("utf-8") if isinstance(data, bytes) else data, "mode": v[1]}
            ino = v[3]
        elif v[0] == "fifo":
            ino, rec = v[2], {"t": "fifo", "mode": v[1]}
        elif v[0] == "dev":
            ino, rec = v[3], {"t": "chr", "mode": v[1]}
        else:
            raise AssertionError(v)
        k = inodes.setdefault(ino, dict(rec, ino=len(inodes) + 1))
        names.append({"p": p, "t": "ref", "ino": k["ino"]})
    return {"names": names, "inodes": list(inodes.values()), "next": len(inodes) + 1}


def model_structural(base, reply):
    """the model's resulting tree in the form of `structural(snapshot(base))`"""
    root = [c for c in base.split("/") if c]
    inodes = {i["ino"]: i for i in reply["inodes"]}
    ent, groups = {}, {}
    for n in reply["names"]:
        p = n["p"]
        if p[:len(root)] != root or len(p) == len(root):
            if n["t"] != "dir":
                ent["<outside-sandbox>/" + "/".join(p)] = ("?",)
            continue
        rel = "/".join(p[len(root):])
        if n["t"] == "dir":
            ent[rel] = ("dir", n["mode"])
            continue
        i = inodes[n["ino"]]
        groups.setdefault(n["ino"], []).append(rel)
        if i["t"] == "file":
            ent[rel] = ("reg", i["mode"], i["data"].encode("utf-8"))
        elif i["t"] == "sym":
            ent[rel] = ("sym", i["target"])
        elif i["t"] == "fifo":
            ent[rel] = ("fifo", i["mode"])
        else:
            ent[rel] = ("dev", i["mode"])
    return ent, sorted(sorted(g) for g in groups.values() if len(g) > 1)


OUTSIDE_MODEL = {"err:tarerror", "err:internal:RecursionError", "err:internal:AttributeError", "err:removeError"}




def members_as_read(data):
    """the member list and pax version as the (trusted) tar reader presents them to Bob's dispatch"""
    out = []
    with tarfile.open(fileobj=io.BytesIO(data), mode="r:*") as tar:
        vsn = tar.pax_headers.get("bob-archive-vsn")
        for ti in tar:
            t = TYPE_NAMES.get(ti.type)
            if t is None:
                return None, None
            d = tar.extractfile(ti).read().decode("utf-8") if t == "reg" else ""
            out.append({"name": ti.name, "type": t, "link": ti.linkname if t in ("sym", "lnk") else "", "mode": ti.mode, "data": d})
    return out, vsn


def correspond_hostile(ctx, n, batch=500):
    import time
    r = ctx.subrng("corr-hostile")
    base = os.path.join(scratch_dir(ctx), "jail-corr")
    cfg = model_cfg(ctx)
    done = 0
    while done < n:
        reqs, impls, cases = [], [], []
        stop = False
        for i in range(min(batch, n - done)):
            if time.time() > phase_deadline(ctx, 0.86) and done + i >= 150:
                if done + i < n // 3:
                    ctx.skip("hostile correspondence stopped after %d archives (time budget / machine load)" % (done + i))
                stop = True
                break
            var = gen_jail_variant(r)
            jail = os.path.join(base, PAD, "jail")
            members, vsn = gen_hostile(r, jail)
            if any(ord(ch) > 0xffff for m in members for ch in m["name"] + m["link"]):
                continue
            res = run_hostile(base, members, vsn, var)
            if res is None or res[0] == "err:timeout":
                continue
            out, before, after, ws_rel, audit_rel, jail = res
            _, dest, audit, _, _ = jail_paths(base, var)
            seen, seen_vsn = members_as_read(build_archive(members, vsn))
            if seen is None:
                continue
            req = {"op": "extract", "setup": True, "cfg": cfg, "dest": [c for c in dest.split("/") if c],
                   "audit": [c for c in audit.split("/") if c], "vsn": seen_vsn, "members": seen}
            req.update(fs_request(base, before))
            reqs.append(req)
            impls.append((out, structural(after), list(FALLBACK_LOG)))
            cases.append({"kind": "hostile", "members": members, "vsn": vsn, "jail": var})
        done += batch
        compare_hostile(ctx, base, cases, impls, ctx.lean(DRIVER, reqs) if reqs else [])
        if stop:
            break
    shutil.rmtree(base, ignore_errors=True)


def compare_hostile(ctx, base, cases, impls, replies):
    for c, (out, (ent, groups), fblog), rep in zip(cases, impls, replies):
        ctx.case(("corr", canon_members(c["members"]), c["vsn"], sorted(c["jail"].items())),
                 nontrivial=any(m["name"].startswith("content/") for m in c["members"]))
        mout = rep["out"]
        ctx.count("corr_model_outcome", mout)
        # the implementation took the re-extraction fallback of tarfile.makelink: for hard link members this is inside the
        # model (`reextract`/`linkFallback`) and compared like everything else; the histogram says what the lookup found
        hard = [x for x in fblog if x.startswith("lnk->")]
        if hard:
            ctx.count("corr_hardlink_fallback_found", "+".join(x[5:] for x in hard))
            ctx.count("corr_hardlink_fallback_outcome", "%s / model %s" % (out, mout))
        if mout == "err:unsupported":
            # what is still outside the model: the same fallback for SYMBOLIC link members, symlink loops, writes onto fifos,
            # hard link names with a trailing slash (jail oracle only)
            ctx.count("corr_unsupported_impl_outcome", out)
            ctx.count("corr_unsupported_reason", "symlink-member-fallback" if any(x.startswith("sym->") for x in fblog)
                      else "hardlink-fallback+other" if hard else "other")
            continue
        if out in OUTSIDE_MODEL:
            ctx.disagree("TarHelper._extract outcome == Model.extractAll outcome", c, out, mout)
            continue
        ment, mgroups = model_structural(base, rep)
        if out.replace("err:internal:TypeError", "err:internal") != mout:
            ctx.disagree("TarHelper._extract outcome == Model.extractAll outcome", c, out, mout)
        elif ent != ment:
            d = {k: (ent.get(k), ment.get(k)) for k in sorted(set(ent) | set(ment)) if ent.get(k) != ment.get(k)}
            ctx.disagree("tree after TarHelper._extract == tree after Model.extractAll", c,
                         {k: repr(v[0]) for k, v in list(d.items())[:4]}, {k: repr(v[1]) for k, v in list(d.items())[:4]})
        elif groups != mgroups:
            ctx.disagree("hard link groups after TarHelper._extract == Model.extractAll", c, groups[:4], mgroups[:4])
        else:
            ctx.trace_validated(1)


def jail_paths(base, var):
    jail = os.path.join(base, PAD, "jail")
    distname = "alias" if var["alias"] else "dist"
    rel = os.path.relpath(jail, base)
    return (jail, os.path.join(jail, distname, "workspace"), os.path.join(jail, distname, "audit.json.gz"),
            os.path.join(rel, "dist", "workspace"), os.path.join(rel, "dist", "audit.json.gz"))


def correspond_accept(ctx):
    """the builder's acceptance decision vs. Model.acceptDownload on what was observed after each download"""
    results = getattr(ctx, "_c08_dl", None) or []
    reqs, sel = [], []
    for res in results:
        o = res["obs"]
        if res["out"] == "failed:_Timeout" or res["spec"][0] == "setup":
            continue
        if o["wasDownloaded"] and o["auditExists"] and (o["auditHash"] == "unreadable" or res["out"] == "rejected:auditUnreadable"
                                                          or res["out"].startswith("failed:")):
            # parsing of the audit trail is outside the model (Bob's reader is stricter than the harness')
            ctx.count("accept_model", "audit-unreadable(outside model)")
            continue
        if o["wasDownloaded"] or res["out"] in ("accepted", "not-downloaded", "rejected:missingAudit", "rejected:corrupt"):
            reqs.append({"op": "accept", "wasDownloaded": o["wasDownloaded"], "auditExists": o["auditExists"], "auditHash": o["auditHash"],
                         "workspaceHash": o["workspaceHash"]})
            sel.append(res)
    for res, rep in zip(sel, ctx.lean(DRIVER, reqs) if reqs else []):
        want = {"accepted": ("ok", res["obs"]["workspaceHash"]), "not-downloaded": ("ok", None),
                "rejected:missingAudit": ("err", "missingAudit"), "rejected:corrupt": ("err", "corrupt")}.get(res["out"], ("other", res["out"]))
        got = ("ok", rep["ok"]) if "ok" in rep else ("err", rep["err"])
        ctx.case(("accept", res["spec"], res["expect"]))
        ctx.count("accept_model", "%s:%s" % (got[0], got[1] if got[0] == "err" else ("hash" if got[1] else "none")))
        if got != want:
            ctx.disagree("LocalBuilder._downloadPackage verdict == Model.acceptDownload", res, list(want), list(got))
        else:
            ctx.trace_validated(1)


def correspond_namespace(ctx, n):
    """real _pack member list vs Model.packMembers, and Model.dispatch on every real member name"""
    import random
    from bob.archive import TarHelper
    r = ctx.subrng("corr-namespace")
    work = os.path.join(scratch_dir(ctx), "ns")
    reqs, wants = [], []
    for i in range(n):
        shutil.rmtree(work, ignore_errors=True)
        src = os.path.join(work, "workspace")
        os.makedirs(work)
        gen_tree(random.Random(r.getrandbits(48)), src, size=r.choice([0, 2, 6, 12]))
        audit = os.path.join(work, "audit.json.gz")
        with open(audit, "wb") as f:
            f.write(b"A")
        buf = io.BytesIO()
        try:
            TarHelper()._pack(None, buf, audit, src)
        except Exception as e:  # noqa
            ctx.disagree("TarHelper._pack member list == Model.packMembers", {"kind": "namespace", "index": i},
                         "%s: %s" % (type(e).__name__, str(e)[-160:]), "member list")
            continue
        names, _ = read_names(buf.getvalue())
        if any(ord(ch) > 0xffff for nm in names for ch in nm[0] + nm[2]) or any(t == "?" for _, t, _ in names):
            continue
        # the listing of the tree as the tar library walks it: the same library, packing the tree under another arcname
        ref = io.BytesIO()
        with tarfile.open(fileobj=ref, mode="w", format=tarfile.PAX_FORMAT) as tar:
            tar.add(src, arcname="T")
        rels = [{"name": nm[2:], "type": t, "link": l[2:] if t == "lnk" else l, "mode": 0, "data": ""}
                for nm, t, l in read_names(ref.getvalue())[0][1:]]
        reqs.append({"op": "pack", "auditBase": "audit.json.gz", "auditData": "", "rels": rels})
        wants.append(("pack", [(nm, t, l) for nm, t, l in names]))
        for nm, t, l in names:
            reqs.append({"op": "dispatch", "cfg": model_cfg(ctx), "member": {"name": nm, "type": t, "link": l, "mode": 0, "data": ""}})
            want = {"ok": "audit"} if nm == "meta/audit.json.gz" else {"ok": "skip"} if nm in ("content", "meta") else \
                {"ok": "content", "name": nm[8:], "link": l[8:] if t == "lnk" else l}
            wants.append(("dispatch", want))
    shutil.rmtree(work, ignore_errors=True)
    for (kind, want), req, rep in zip(wants, reqs, ctx.lean(DRIVER, reqs) if reqs else []):
        ctx.case(("ns", kind, json.dumps(req, sort_keys=True)))
        got = [(m["name"], m["type"], m["link"]) for m in rep["members"]] if kind == "pack" else rep
        if got != want:
            ctx.disagree("TarHelper._pack member list == Model.packMembers" if kind == "pack" else
                         "member name handling of __extractPackage == Model.dispatch", req, want, got)
        else:
            ctx.trace_validated(1)


def correspond(ctx):
    try:
        _timed(ctx, "corr_namespace", lambda: correspond_namespace(ctx, ctx.scale(40, 2000)))
        _timed(ctx, "corr_hostile", lambda: correspond_hostile(ctx, ctx.scale(2500, 100000)))
        _timed(ctx, "corr_accept", lambda: correspond_accept(ctx))
    finally:
        drop_scratch(ctx)


# ====================================================================== (iii) corruption through the builder's download path

import concurrent.futures


class _SyncExecutor(concurrent.futures.Executor):
    """runs the archive worker functions in the calling thread (they install signal handlers)"""
    def submit(self, fn, *a, **k):
        f = concurrent.futures.Future()
        try:
            f.set_result(fn(*a, **k))
        except BaseException as e:  # noqa - transported to the awaiting coroutine
            f.set_exception(e)
        return f


class _Recipe:
    def getLayer(self):
        return []

    def getName(self):
        return "pkg"

    def getPackageName(self):
        return "pkg"


class _Pkg:
    def getRecipe(self):
        return _Recipe()

    def getName(self):
        return "pkg"

    def getStack(self):
        return ["pkg"]


class _Step:
    """the part of a package step that LocalBuilder._downloadPackage and the archive look at"""
    JENKINS = False

    def __init__(self, ws, vid):
        self.ws, self.vid = ws, vid

    def getPackage(self):
        return _Pkg()

    def getWorkspacePath(self):
        return self.ws

    def getStoragePath(self):
        return self.ws

    def getVariantId(self):
        return self.vid

    def isCheckoutStep(self):
        return False

    def isPackageStep(self):
        return True

    def getLabel(self):
        return "dist"


def small_tree(r, root):
    os.makedirs(root)
    os.makedirs(os.path.join(root, "d", "empty"))
    for i in range(r.randrange(1, 4)):
        p = os.path.join(root, r.choice(["", "d"]), "f%d" % i)
        with open(p, "wb") as f:
            f.write(bytes(r.getrandbits(8) for _ in range(r.choice([0, 3, 20, 120]))))
        os.chmod(p, r.choice([0o644, 0o755, 0o600]))
    os.symlink(r.choice(["d/f0", "nowhere", "d"]), os.path.join(root, "ln"))
    fs = [os.path.join(dp, f) for dp, _, fl in os.walk(root) for f in fl if not os.path.islink(os.path.join(dp, f))]
    if fs:
        os.link(fs[0], os.path.join(root, "hard"))
    fix_times(root)


def fix_times(root):
    """integer time stamps everywhere: the artifact bytes (and with them every truncation / flip position) replay exactly"""
    for dp, dn, fl in os.walk(root, topdown=False):
        for n in fl + dn:
            os.utime(os.path.join(dp, n), ns=(10 ** 18, 10 ** 18), follow_symlinks=False)
    os.utime(root, ns=(10 ** 18, 10 ** 18))


def audit_semantic(path):
    with gzip.open(path, "rb") as f:
        return json.load(f)


def _dl_kind(e):
    from bob.errors import BuildError, ParseError, BobError
    if isinstance(e, BobError):
        msg = str(e.slogan)
        for pat, kind in [("misses its audit trail", "missingAudit"), ("Corrupt downloaded artifact", "corrupt"),
                          ("Error extracting binary artifact", "extract"), ("Cannot download artifact", "download"),
                          ("Unsupported binary artifact", "unsupportedArtifact"), ("unknown file", "unknownFile"),
                          ("audit", "auditUnreadable"), ("Audit", "auditUnreadable")]:
            if pat in msg:
                return "rejected:" + kind
        return "rejected:other"
    return "failed:" + type(e).__name__


def corruption_worker(job):
    """runs in a forked worker: own cwd, own BobState.  job = (dir, tree_seed, specs) -> list of result dicts"""
    import random
    import bob.state
    import bob.tty
    from bob.archive import LocalArchive
    from bob.audit import Audit
    from bob.builder import LocalBuilder
    from bob.state import BobState
    from bob.utils import hashDirectory, runInEventLoop
    wdir, tree_seed, specs = job[:3]
    deadline = job[3] if len(job) > 3 else None
    shutil.rmtree(wdir, ignore_errors=True)
    os.makedirs(wdir)
    oldcwd = os.getcwd()
    os.chdir(wdir)
    old_umask = os.umask(UMASK)
    devnull = open(os.devnull, "w")
    results = []
    try:
        with contextlib.redirect_stdout(devnull):
            r = random.Random(tree_seed)
            src = os.path.join(wdir, "src", "workspace")
            os.makedirs(os.path.dirname(src))
            small_tree(r, src)
            h = hashDirectory(src)
            vid, bid = bytes(r.getrandbits(8) for _ in range(20)), bytes(r.getrandbits(8) for _ in range(20))
            audit_src = os.path.join(wdir, "src", "audit.json.gz")
            import bob.audit
            import datetime as _dt

            class _FixedNow(_dt.datetime):
                @classmethod
                def now(cls, tz=None):
                    return _dt.datetime(2020, 1, 1, tzinfo=tz)
            bob.audit.datetime = _FixedNow          # only in this forked worker: same audit bytes on every run
            Audit.create(vid, bid, h).save(audit_src)
            os.utime(audit_src, ns=(10 ** 18, 10 ** 18))
            audit_sem = audit_semantic(audit_src)
            ex = _SyncExecutor()
            arch = LocalArchive({"path": os.path.join(wdir, "archive"), "flags": ["download", "upload"]})
            arch.wantUploadLocal(True)
            arch.wantDownloadLocal(True)
            art_path = arch._remoteName(bid, ".tgz")
            try:
                runInEventLoop(arch.uploadPackage(_Step(src, vid), bid, audit_src, src, executor=ex))
                with open(art_path, "rb") as f:
                    art = f.read()
            except Exception as e:  # noqa - the upload of an ordinary small tree must work
                return [{"spec": ["setup"], "tree_seed": tree_seed, "out": "upload-failed:%s: %s" % (type(e).__name__, str(e)[-160:]),
                         "obs": {}, "identical": True, "tree_ok": False, "audit_ok": False, "recorded": None, "expect": h.hex(), "len": 0, "secs": 0}]
            # a second tree / audit for mismatching combinations
            src2 = os.path.join(wdir, "src2", "workspace")
            os.makedirs(os.path.dirname(src2))
            small_tree(random.Random(tree_seed + 1), src2)
            with open(os.path.join(src2, "extra"), "w") as f:
                f.write("x")
            builder = LocalBuilder(0, False, False, False, False, [], wdir, False, True)
            builder.setArchiveHandler(arch)
            builder.setLocalDownloadMode("yes")
            builder.setExecutor(ex)
            rec = {}
            orig = arch.downloadPackage

            async def wrapped(*a, **k):
                ret = await orig(*a, **k)
                rec["wasDownloaded"] = ret
                return ret
            arch.downloadPackage = wrapped

            def variant(spec):
                k = spec[0]
                if k == "intact":
                    return art
                if k == "truncfrac":          # every prefix length (the job lists more lengths than the artifact has)
                    return art[:spec[1]] if spec[1] < len(art) else None
                if k == "flipfrac":
                    b = bytearray(art)
                    b[int(spec[1] * len(art))] ^= 1 << spec[2]
                    return bytes(b)
                if k == "raw":
                    return bytes.fromhex(spec[1])
                if k == "plain-tar":
                    return gzip.decompress(art)
                if k == "xz":
                    import lzma
                    return lzma.compress(gzip.decompress(art))
                if k == "repack":
                    # a well-formed artifact made by the real _pack from (audit of tree 1, content of tree 2 / modified tree 1)
                    from bob.archive import TarHelper
                    mod = os.path.join(wdir, "mod", "workspace")
                    shutil.rmtree(os.path.dirname(mod), ignore_errors=True)
                    shutil.copytree(src2 if spec[1] == "other" else src, mod, symlinks=True)
                    if spec[1] == "mode":
                        p = os.path.join(mod, "d")
                        os.chmod(p, 0o700)
                    elif spec[1] == "content":
                        with open(os.path.join(mod, "ln2"), "w") as f:
                            f.write("added")
                    elif spec[1] == "link":
                        os.unlink(os.path.join(mod, "ln"))
                        os.symlink("elsewhere", os.path.join(mod, "ln"))
                    buf = io.BytesIO()
                    TarHelper()._pack(None, buf, audit_src, mod)
                    return buf.getvalue()
                if k == "no-audit":
                    buf = io.BytesIO()
                    with tarfile.open(fileobj=io.BytesIO(art), mode="r:*") as tin, gzip.GzipFile(fileobj=buf, mode="wb", mtime=0) as gz, \
                            tarfile.open(None, "w", fileobj=gz, format=tarfile.PAX_FORMAT, pax_headers={"bob-archive-vsn": "1"}) as tout:
                        for ti in tin:
                            if ti.name != "meta/audit.json.gz":
                                tout.addfile(ti, tin.extractfile(ti) if ti.isreg() else None)
                    return buf.getvalue()
                raise AssertionError(spec)

            for n, spec in enumerate(specs):
                if deadline is not None and __import__("time").time() > deadline - 2:
                    break
                data = variant(spec)
                if data is None:
                    continue
                with open(art_path, "wb") as f:
                    f.write(data)
                ws = os.path.join(wdir, "work", "pkg", "dist", str(n), "workspace")
                audit = os.path.join(os.path.dirname(ws), "audit.json.gz")
                if spec[0] == "no-audit" or (spec[0] in ("truncfrac", "flipfrac") and __import__("zlib").crc32(repr(list(spec)).encode()) % 7 == 0):
                    # a stale audit trail of an earlier download must not validate anything
                    os.makedirs(os.path.dirname(ws))
                    shutil.copy(audit_src, audit)
                rec.clear()
                t0 = __import__("time").time()
                try:
                    with time_limit(30):
                        ret = runInEventLoop(builder._downloadPackage(_Step(ws, vid), 0, bid))
                    out = "accepted" if ret[0] else "not-downloaded"
                except BaseException as e:  # noqa - classified
                    if isinstance(e, (KeyboardInterrupt, SystemExit)):
                        raise
                    out = _dl_kind(e)
                obs = {"wasDownloaded": bool(rec.get("wasDownloaded")), "auditExists": os.path.exists(audit)}
                try:
                    obs["workspaceHash"] = hashDirectory(ws).hex() if os.path.isdir(ws) else ""
                except Exception:  # noqa
                    obs["workspaceHash"] = "?"
                try:
                    sem = audit_semantic(audit) if obs["auditExists"] else None
                    obs["auditHash"] = sem["artifact"]["result-hash"] if sem else ""
                except Exception:  # noqa
                    sem, obs["auditHash"] = None, "unreadable"
                recorded = BobState().getResultHash(ws)
                res = {"spec": list(spec), "tree_seed": tree_seed, "out": out, "obs": obs, "identical": data == art,
                       "tree_ok": obs["workspaceHash"] == h.hex(), "audit_ok": sem == audit_sem,
                       "recorded": recorded.hex() if recorded is not None else None, "expect": h.hex(), "len": len(art),
                       "secs": round(__import__("time").time() - t0, 3)}
                results.append(res)
                shutil.rmtree(os.path.join(wdir, "work"), ignore_errors=True)
    finally:
        try:
            bob.state.finalize()
        except Exception:  # noqa
            pass
        os.umask(old_umask)
        os.chdir(oldcwd)
        devnull.close()
        shutil.rmtree(wdir, ignore_errors=True)
    return results


RAW_FORMATS = [b"", b"\x00" * 1024, b"garbage that is not an archive", b"PK\x03\x04" + b"\x00" * 60, b"\x1f\x8b\x08\x00" + b"\x00" * 20,
               gzip.compress(b"not a tar file at all"), gzip.compress(b"\x00" * 10240)]


def corruption_jobs(ctx, tag):
    r = ctx.subrng(tag)
    jobs = []
    n_art = ctx.scale(3, 40)
    per_job = 120
    for a in range(n_art):
        tree_seed = r.getrandbits(40)
        # the artifact length is only known in the worker: positions are drawn as fractions and clipped there
        specs = [("intact",)]
        specs += [("raw", x.hex()) for x in RAW_FORMATS] + [("plain-tar",), ("xz",), ("no-audit",)]
        specs += [("repack", k) for k in ("same", "other", "mode", "content", "link")]
        specs += [("truncfrac", i) for i in range(0, 1400)] if a < 2 or ctx.tier == "thorough" else [("truncfrac", r.randrange(1400)) for _ in range(300)]
        specs += [("flipfrac", r.random(), r.randrange(8)) for _ in range(ctx.scale(500, 2000))]
        for i in range(0, len(specs), per_job):
            jobs.append((os.path.join(scratch_dir(ctx), "dl-%s-%d-%d" % (tag, a, i)), tree_seed, specs[i:i + per_job]))
    return jobs


def judge_corruption(ctx, res, tag):
    """oracle (iii) on one result of the download path"""
    out, spec = res["out"], res["spec"]
    if spec[0] == "setup":
        ctx.violation("uploadPackage/_pack failed on a small ordinary tree: " + out, res, "fidelity-pack-error")
        return
    if out == "failed:_Timeout":
        ctx.skip("a download run hit the 30 s limit (machine load)")
        return
    ctx.case((tag, spec, res["expect"]), nontrivial=not res["identical"])
    ctx.count("download_outcome", out)
    ctx.count("download_input", spec[0])
    if out == "accepted":
        if spec[0] == "no-audit":
            ctx.violation("an artifact without audit trail was accepted (a stale audit file of an earlier download validated it)", res,
                          "artifact-without-audit-accepted")
        elif not (res["tree_ok"] and res["audit_ok"]):
            ctx.violation("a %s artifact was accepted as package result although the extracted tree/audit differs from what was packed "
                          "(tree identical: %s, audit identical: %s)" % (spec[0], res["tree_ok"], res["audit_ok"]), res,
                          "corrupt-artifact-accepted")
        elif res["recorded"] != res["expect"]:
            ctx.violation("accepted download recorded result hash %r, packed tree has %r" % (res["recorded"], res["expect"]), res,
                          "accepted-download-wrong-result-hash")
    else:
        if res["recorded"] is not None:
            ctx.violation("download ended with %s but a result hash was recorded for the workspace" % out, res, "failed-download-recorded")
        if spec[0] in ("intact", "plain-tar", "xz") or (spec[0] == "repack" and spec[1] == "same"):
            ctx.violation("intact artifact (%s) was not accepted: %s" % (spec[0], out), res, "intact-artifact-rejected")


def phase_deadline(ctx, frac):
    """absolute time at which the phase that owns the share [.., frac] of the time left for the harness must stop.
    The shares refer to what is left of the budget when the oracle starts (the Lean build and audit come first);
    under machine load the streams shrink (recorded via ctx.skip), they never turn into a verdict."""
    import time
    st = ctx.__dict__.setdefault("_c08_phase0", time.time())
    avail = max(25.0, ctx.budget - (st - ctx.t_run0) - 4.0)
    return st + avail * frac


def oracle_corruption(ctx, tag="corruption", frac=0.56):
    """forked workers (own cwd / BobState each); stops at the phase deadline and records what was not run"""
    import multiprocessing as mp
    import time
    # import Bob before forking: the workers inherit the modules instead of compiling them sixteen times
    import bob.archive, bob.audit, bob.builder, bob.state, bob.tty, bob.utils  # noqa
    deadline = phase_deadline(ctx, frac)
    jobs = [j + (deadline,) for j in corruption_jobs(ctx, tag)]
    out = []
    planned = sum(len(j[2]) for j in jobs)
    with mp.get_context("fork").Pool(min(16, os.cpu_count() or 4)) as pool:
        it = pool.imap_unordered(corruption_worker, jobs, chunksize=1)
        for _ in jobs:
            try:
                results = it.next(timeout=max(1.0, deadline + 6 - time.time()))
            except mp.TimeoutError:
                pool.terminate()
                break
            for res in results:
                judge_corruption(ctx, res, tag)
                out.append(res)
    if len(out) < planned * 0.8:
        ctx.skip("corruption stream: %d of %d planned runs (time budget / machine load)" % (len(out), planned))
    return out


MANIFEST = {
    "text": "Proved in Lean for all inputs (Props/C08.lean, 21 theorems (the hard-link makelink re-extraction fallback of CPython's tarfile is inside the model and inside extract_confined), axioms propext/Classical.choice/Quot.sound only): (P) extract_confined - for "
            "the dispatch of the current source (Cfg.current, built from constants extracted from archive.py/utils.py on every run), every "
            "member list (any names, types, link names, order, repetitions, pax version) and every well-formed initial tree with a canonical "
            "destination in which no inode is shared between the workspace and the rest: __extractPackage leaves the name table, the inodes "
            "(content, type, link target, mode) and the link sets of everything outside the workspace and the audit file unchanged, and keeps "
            "the inode separation; the same statement is REFUTED by concrete witnesses for the dispatch before commit 8ba1640 (hard link, '..' "
            "through a missing directory, inbound symlink) and for a repair that only normalises link names. (P) pack_extract_namespace / "
            "dispatch_accepts_only - content/<rel> <-> <rel>, meta/audit.json.gz, content, meta is a bijection on all strings and nothing else is "
            "accepted. (P) accepted_is_verified / accepted_is_packed / mismatch_never_accepted - a download is recorded only if the audit exists and "
            "hash(extracted) = audit.resultHash; with an injective directory hash the accepted tree is the packed tree. (C) fidelity of the "
            "tar/gzip round trip, outcomes of truncation / bit flips / wrong formats through LocalBuilder._downloadPackage, and the model itself "
            "(outcome kind + complete resulting tree of a jail, thousands of hostile archives per run) are decided differentially. (A) tar/gzip "
            "codec, CPython's per-member extraction semantics as transliterated (the re-extraction fallback of makelink for hard link members "
            "is inside the model and the theorem; the same fallback for symbolic link members, symlink loops, fifo writes, hard link names "
            "with a trailing slash are outside the model).",
    "note": "trusted: Lean kernel, harness/props/c08.py, tools/consts/c08.py, CPython 3.12 tarfile/gzip/os semantics (member extraction modelled and "
            "validated differentially, codec trusted), POSIX path resolution as modelled by `walk`, SHA-1 collision freedom of hashDirectory "
            "(hypothesis of accepted_is_packed); HTTP and Jenkins transports not exercised",
    "technique": "Lean 4 proof over hand-written model (file system with inodes, strict/lenient path walk, member dispatch) + differential correspondence "
                 "on hostile archives in a jail + implementation-only oracles (pack/extract fidelity, outside-of-jail snapshot, corruption through the "
                 "real download path)",
}
