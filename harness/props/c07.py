"""C07 - binary artifacts are reused exactly when they are the right ones.

oracle (implementation only, no Lean):
  (U) `LocalBuilder._downloadPackage` alone (real code, real BobState, scripted archive; thousands of cases):
      accepted => verified, corrupt => rejected and never recorded, changed build-id => pruned first and nothing of
      the old state survives, the documented meaning of every download mode / layer mode / packages= / depth.
  (W) worlds of REAL builds: one LocalArchive directory, uploader / downloader / reference workspaces at different
      absolute paths, generated projects with edit histories, all download modes, emulated host fingerprints,
      corrupted / truncated / audit-mismatching / stale artifacts, garbage and stale live-build-id files:
      (1) downloads enabled => same dist content as a purely local build of the same project state and host,
      (2) same state + host at another location => same Build-Ids, and no build/package script at or below the
          download depth once everything was uploaded,
      (3) equal Build-Id => equal result, over everything the world produced (stale / foreign artifacts),
      (4) wrong predictions are recovered; the recorded build-id of every cooked package is the final one;
      (5) two project states that differ only in the sources of one package => another Build-Id for every package that
          consumes it (result or strongly used tool, transitively); a directed world has ONE step with weakly and strongly
          used tools in both name orders (tools reached through `use: [tools]` only) and edits every strong tool in turn,
      plus the trace form of "accepted => verified" on every real download.
correspond (needs drv_c07):
  (C1) the unit stream against `Download.dlOps` (micro-operation list, outcome, final state), the mode table and
       `dissect`;
  (C2) every real `_downloadPackage` call of the worlds against `Download.dlOps` for the same entry state, mode,
       depth and archive entry (built / downloaded decision and the `inputs` form written);
  (C3) every real invocation without workspace history against `Download.cook` on the dumped package tree:
       per package downloaded / built, order of the package level operations.
  (C4) the Build-Id of every build / package step of every real invocation (as logged from `__getBuildIdSingle`) against
       `Digest.buildId` with SHA-1, bit-exact, from the dumped step description (digest script, sorted tools with weak
       flag, digestEnv, arguments), the logged Build-Ids of its inputs and the logged fingerprint; histogram `bid-step`
       (no tools / strong only / weak only / weak<strong / strong<weak / both orders).
"""
import copy
import hashlib
import json
import os
import random
import shutil
import time

DRIVER = "drv_c07"
RULE = ("(U/C1) unit cases: mode x layer modes x layer x package name x canDownload x force x depth 0..3 x old state "
        "(inputs none / built [bid,..] / downloaded bid / shared / legacy, result none / hash / forged, directory "
        "present or not) x archive entry (missing, honest, no audit, audit hash mismatch, extraction error); distinct by "
        "the whole tuple, non-trivial when a download may be tried. (W/C2/C3) worlds: a generated project (2-4 "
        "packages, import SCM sources, strong/weak tools, variables, fingerprintScript echo $FAKE_HOST), an edit history, "
        "a script of real invocations (uploader, downloader at another path, reference without archive) with archive "
        "tampering steps; distinct by (script, project states); every invocation is one evaluation.")
ASSUMPTIONS = [
    "a package is one node in Model/Download.lean: checkout and build step are folded into the function semB; that the "
    "checkout/build stage is redone exactly when needed is C01",
    "scripts are deterministic functions of their declared inputs (the generated scripts are); weakly used tools and weak "
    "variables do not influence results (user promise, the generated scripts only record the name of a weak tool)",
    "Build-Id bytes: Model/Digest.lean buildId, validated bit-exactly by the C03 correspondence; Download.lean takes the "
    "digest as an injective function E.B (hypothesis BidSound / BInj)",
    "an archive entry is Honest (result of a local build of a package with that Build-Id plus its audit trail) or Corrupt "
    "(rejected by the verification); an internally consistent artifact filed under a foreign Build-Id and a forged "
    "live-build-id file that points to existing artifacts of another project state are outside the property (Bob trusts "
    "the archive for the mapping id -> artifact)",
    "workspaces are not edited behind Bob's back between invocations (C01 Truthful); no shared packages, no Jenkins "
    "mode, no --build-only / --no-deps / --resume, -j 1, audit trail enabled",
    "a workspace path identifies one package of the project (NoAlias, C16); the Variant-Id determines the recipe part "
    "(VidOK, C02)",
    "tar/gzip codec and extraction confinement are C08; atomic upload is C09",
]

HOSTS = ["h1", "h2"]
MODES = ["yes", "deps", "forced", "forced-deps", "forced-fallback", "packages"]
DOC_DEPTH = {"no": (0xffff, 0xffff), "yes": (0, 0xffff), "deps": (1, 0xffff), "forced": (0, 0), "forced-deps": (1, 1),
             "forced-fallback": (0, 1), "packages": (0xffff, 0xffff)}

_WORLD_CACHE = {}
# development aid for the mutant self-test on an overloaded machine: extends this module's own deadlines
EXTRA_S = float(os.environ.get("C07_EXTRA_BUDGET_S", "0") or 0)


def tl(ctx):
    return ctx.time_left() + EXTRA_S


def _P():
    from gen import c07_projects as P
    return P


# =============================================================================================== unit cases

BIDS = ["a1" * 20, "b2" * 20, "c3" * 20]
VIDS = ["11" * 20, "22" * 20]


def content_hash(text):
    return hashlib.sha1(("content:" + text).encode()).hexdigest()


def gen_unit_case(r):
    mode = r.choice(["no", "yes", "yes", "deps", "deps", "forced", "forced-deps", "forced-fallback", "packages"])
    lm = []
    k = r.random()
    if k < 0.15:
        lm = [r.choice(["yes", "no", "forced"]) + "=^lay"]
    elif k < 0.22:
        lm = [r.choice(["yes", "no", "forced"]) + "=^lay", r.choice(["yes", "no", "forced"]) + "=" + r.choice(["^lay", "^oth"])]
    layer = r.choice([[], [], ["layA"], ["other"], ["layA", "sub"]])
    old_in = r.choice([None, None, "built", "built", "downloaded", "downloaded", "shared", "legacy"])
    ob = r.choice(BIDS)
    if old_in == "built":
        inp = {"built": [ob] + [r.choice(BIDS) for _ in range(r.randrange(1, 3))]}
    elif old_in == "downloaded":
        inp = {"downloaded": ob}
    elif old_in == "shared":
        inp = {"shared": [ob, "/share/x"]}
    elif old_in == "legacy":
        inp = {"legacy": True}
    else:
        inp = None
    res = r.choice([None, None, "hash", "hash", "hash", "forged"])
    if res == "hash":
        res = r.choice(["d0" * 20, content_hash("old")])
    exists = r.random() < 0.8 or res is not None
    ak = r.random()
    if ak < 0.25:
        arch = "missing"
    elif ak < 0.33:
        arch = "error"
    else:
        arch = {"audit": r.random() < 0.85, "content": r.choice(["new", "new2", ""]), "claim": "right" if r.random() < 0.75 else "wrong"}
    return {"mode": mode if mode != "packages" else "packages=^pk", "layerModes": lm, "layer": layer,
            "name": r.choice(["pkg-a", "zz", "pk"]), "canDownload": r.random() < 0.9, "force": r.random() < 0.1,
            "depth": r.choice([0, 0, 1, 2, 3]), "bid": r.choice(BIDS), "vid": r.choice(VIDS),
            "old": {"inputs": inp, "result": res, "exists": exists}, "archive": arch}


def layer_mode(c):
    import re
    layer = "/".join(c["layer"])
    out = None
    if layer:
        for m in c["layerModes"]:
            key, _, rx = m.partition("=")
            if re.compile(rx).match(layer):
                out = key
    return out


def pkg_match(c):
    import re
    return c["mode"].startswith("packages=") and bool(re.compile(c["mode"][9:]).search(c["name"]))


def spec_try(c):
    """the documented meaning of the modes: may a download be tried for this package at this depth?"""
    mode = c["mode"].split("=")[0]
    dd, df = DOC_DEPTH[mode]
    if mode in ("yes", "deps") and not c["canDownload"]:
        dd = 0xffff
    lm = layer_mode(c)
    if lm == "no":
        return False, dd, df, lm
    return (c["depth"] >= dd or pkg_match(c) or lm in ("yes", "forced")), dd, df, lm


def old_bid(c):
    i = c["old"]["inputs"]
    if i is None:
        return None
    if "built" in i:
        return i["built"][0]
    if "downloaded" in i:
        return i["downloaded"]
    if "shared" in i:
        return i["shared"][0]
    return "<legacy>"


def unit_oracle(c, res):
    """the property's clauses on one real `_downloadPackage` call; returns a list of (what, signature)"""
    out = []
    if "harness_error" in res:
        return []
    ops = res["ops"]
    names = [o[0] for o in ops]
    st = res["state"]
    ret = res["ret"]
    tried, dd, df, lm = spec_try(c)
    ob = old_bid(c)
    prune = (ob is not None and ob != c["bid"]) or c["force"]
    attempted = "download" in names
    arch = c["archive"]
    honest = isinstance(arch, dict) and arch["audit"] and arch["claim"] == "right"
    corrupt = arch == "error" or (isinstance(arch, dict) and not honest)
    dl_now = st["inputs"] == {"downloaded": c["bid"]}
    if not tried:
        if ops or ret != {"downloaded": False}:
            out.append(("download tried although the mode/depth does not allow it", "mode-semantics"))
        return out
    # accepted => verified
    if ret.get("downloaded") is True:
        if not dl_now:
            out.append(("download reported but inputs is not `downloaded bid`", "accepted-download-not-recorded"))
        if attempted:
            if not honest or not c["canDownload"]:
                out.append(("unverifiable artifact accepted", "accepted-download-unverified"))
            elif st["disk"] != arch["content"] or st["result"] != content_hash(arch["content"]) or not st["audit"]:
                out.append(("accepted download: workspace/result/audit do not match the artifact", "accepted-download-unverified"))
            i = names.index("download")
            if "setInputs" in names[:i] or names[i + 1:i + 3] != ["hash", "auditRead"]:
                out.append(("input state written before the verification", "accepted-download-unverified"))
        else:
            if not (c["old"]["inputs"] == {"downloaded": c["bid"]} and c["old"]["result"] is not None and not prune):
                out.append(("download reported without a download and without a matching earlier one", "accepted-download-unverified"))
    # corrupt => rejected, never recorded
    if attempted and c["canDownload"] and corrupt:
        if "error" not in ret:
            out.append(("corrupt artifact not rejected", "corrupt-artifact-accepted"))
        if "setInputs" in names:
            out.append(("corrupt artifact recorded as downloaded", "unverified-download-recorded"))
    # changed build-id (or --force): pruned first, nothing of the old state survives
    if prune:
        k = names.index("download") if attempted else len(names)
        if names[:4] != ["reset", "emptyDir", "rmAudit", "reset"] or ops[0][1] is not None or k < 4:
            out.append(("workspace not pruned before the download on a changed build-id", "stale-not-pruned"))
        if st["inputs"] not in (None, {"downloaded": c["bid"]}) or st["disk"] == "old" and c["old"]["exists"]:
            out.append(("old content / input state survives a changed build-id", "stale-not-pruned"))
        if st["inputs"] is None and st["result"] is not None:
            out.append(("result without inputs after a prune", "stale-not-pruned"))
    elif not attempted and ob == c["bid"] and ops:
        out.append(("operations on an unchanged workspace", "mode-semantics"))
    # the mode table: what has to happen when a download may be tried
    need = prune or c["old"]["result"] is None
    if need != attempted:
        out.append(("download attempt %s expected %s" % (attempted, need), "mode-semantics"))
    if attempted:
        avail = c["canDownload"] and arch != "missing"
        if not avail:
            want_err = (lm == "forced") or c["depth"] >= df
            if ("error" in ret) != want_err:
                out.append(("missing artifact: error=%s, documented %s" % ("error" in ret, want_err), "mode-semantics"))
        elif honest and ret != {"downloaded": True}:
            out.append(("honest artifact not downloaded", "mode-semantics"))
    return out


# ---- translation to the model

def model_hash(hexhash, table):
    return table.get(hexhash, "R:" + str(hexhash))


def unit_request(c):
    """the Lean request for a unit case; contents are their texts, H(text) <-> sha1('content:'+text)"""
    o = c["old"]
    inp = o["inputs"]
    if inp is None:
        minp = None
    elif "built" in inp:
        minp = {"built": [inp["built"][0], [{"hash": "R:" + h} for h in inp["built"][1:]]]}
    elif "downloaded" in inp:
        minp = {"downloaded": inp["downloaded"]}
    elif "shared" in inp:
        minp = {"shared": list(inp["shared"])}
    else:
        minp = "legacy"
    if o["result"] is None:
        mres = None
    elif o["result"] == "forged":
        mres = {"forged": 0}
    elif o["result"] == content_hash("old"):
        mres = {"hash": "H(old)"}
    else:
        mres = {"hash": "R:" + o["result"]}
    a = c["archive"]
    if a == "missing":
        art = None
    elif a == "error":
        art = "broken"
    else:
        art = {"good": a["content"], "audit": None if not a["audit"] else
               ("H(%s)" % a["content"] if a["claim"] == "right" else "H(%s-other)" % a["content"])}
    mode = c["mode"].split("=")[0]
    return {"op": "dl", "cfg": {"mode": mode, "can": c["canDownload"], "force": c["force"], "upload": False, "uploadDepth": 0xffff},
            "depth": c["depth"], "bid": c["bid"],
            "info": {"path": "P", "vid": c["vid"], "rsig": "r", "src": "s", "pred": None, "pkgMatch": pkg_match(c),
                     "layerMode": layer_mode(c)},
            "loc": {"res": mres, "inp": minp, "dir": None, "vidv": None, "disk": "old" if o["exists"] else None, "audit": None},
            "art": art}


def canon_model_rh(x):
    if x is None:
        return None
    if "forged" in x:
        return "forged"
    h = x["hash"]
    if h.startswith("H(") and h.endswith(")"):
        return content_hash(h[2:-1])
    if h.startswith("R:"):
        return h[2:]
    return h


def canon_model_inp(x):
    if x is None:
        return None
    if x == "legacy":
        return {"built": []}
    if "built" in x:
        return {"built": [x["built"][0]] + [canon_model_rh(h) for h in x["built"][1]]}
    return x


def canon_real_rh(x):
    if isinstance(x, dict) and "forged" in x:
        return "forged"
    return x


def canon_model_ops(ops):
    out = []
    for o in ops:
        n = o[0]
        if n == "mkDir":
            continue
        if n == "reset":
            out.append(["reset", o[2]])
        elif n == "download":
            out.append(["download", o[2]])
        elif n == "hashWs":
            out.append(["hash"])
        elif n == "setResult":
            out.append(["setResult", canon_model_rh(o[2])])
        elif n == "setVid":
            out.append(["setVid", o[2]])
        elif n == "setInputs":
            out.append(["setInputs", canon_model_inp(o[2])])
        else:
            out.append([n])
    return out


def canon_real_ops(ops):
    out = []
    for o in ops:
        n = o[0]
        if n == "reset":
            out.append(["reset", None if o[1] is None else o[1].get("pkg")])
        elif n == "setResult":
            out.append(["setResult", canon_real_rh(o[1])])
        elif n == "setInputs":
            out.append(["setInputs", o[1]])
        else:
            out.append(list(o))
    return out


def unit_compare(c, res, rep):
    """None if the model reply agrees with the implementation"""
    if "harness_error" in res:
        return "harness error"
    mo = canon_model_ops(rep["ops"])
    ro = canon_real_ops(res["ops"])
    if mo != ro:
        return "ops: impl %r model %r" % (ro, mo)
    out = rep["out"]
    ret = res["ret"]
    want = "error" if "error" in ret else ("downloaded" if ret["downloaded"] else "no")
    if out != want:
        return "outcome: impl %s model %s" % (want, out)
    st = res["state"]
    ml = rep["loc"]
    real_inp = st["inputs"]
    if real_inp is not None and "built" in real_inp:
        real_inp = {"built": [canon_real_rh(x) for x in real_inp["built"]]}
    if canon_model_inp(ml["inp"]) != real_inp:
        return "final inputs: impl %r model %r" % (real_inp, ml["inp"])
    if canon_model_rh(ml["res"]) != canon_real_rh(st["result"]):
        return "final result: impl %r model %r" % (st["result"], ml["res"])
    if (ml["disk"] or "") != (st["disk"] or ""):
        return "final content: impl %r model %r" % (st["disk"], ml["disk"])
    if (ml["audit"] is not None) != bool(st["audit"]):
        return "audit file: impl %r model %r" % (st["audit"], ml["audit"])
    if ml["vidv"] != st["vid"]:
        return "variant id: impl %r model %r" % (st["vid"], ml["vidv"])
    return None


def run_unit_batch(ctx, cases, tag):
    P = _P()
    root = os.path.join(ctx.tmp, "unit-%s" % tag)
    try:
        return P.run_unit(ctx.repo, root, cases, timeout=max(30, min(300, tl(ctx))))
    except Exception as e:  # timeout or child failure
        ctx.skip("unit child: %s" % type(e).__name__)
        return None
    finally:
        shutil.rmtree(root, ignore_errors=True)


# =============================================================================================== worlds

N_DIRECTED = 7


def _mini_pkg(deps=(), src=True, **kw):
    d = {"deps": list(deps), "src": {"dir": ".", "files": {"a.txt": "a1"}} if src else None, "co": None, "bid": 1, "pid": 1,
         "bvars": [], "pvars": [], "penv": {}, "tool": None, "useTools": [], "weakTools": [], "fingerprint": False,
         "relocatable": True}
    d.update(kw)
    return d


def directed_world(k, r):
    """small worlds aimed at one clause each: host fingerprint, strong tool, wrong prediction + upload"""
    P = _P()
    steps = []
    dev = True

    def run(ws, st, download="no", upload=False, h="h1", check=False, expect_all=False, fresh=False):
        steps.append({"do": "run", "ws": ws, "state": st, "download": download, "upload": upload, "host": h,
                      "develop": dev, "check": check, "expect_all": expect_all, "fresh": fresh})
    k = {0: 0, 1: 1, 2: 2, 3: 3, 4: 4, 5: 5, 6: 6}.get(k, 2)
    if k == 0:
        # same recipes and sources, other host fingerprint: the artifact of host h1 must not be taken on h2
        proj = {"pkgs": {"p0": _mini_pkg(["p1"], fingerprint=True), "p1": _mini_pkg()}, "env": {}, "serial": 1}
        states = [proj]
        run("A", 0, upload=True, h="h1")
        run("R", 0, h="h2")
        run("B", 0, download=r.choice(["yes", "forced-fallback", "packages"]), h="h2", check=True)
        run("C", 0, download=r.choice(["yes", "forced"]), h="h1", check=True, expect_all=True)
        kind = "fingerprint"
    elif k == 1:
        # a strongly used tool changes its sources: the consumer's artifact must not be taken
        proj = {"pkgs": {"p0": _mini_pkg(["p1"], useTools=["p1"], toolOnly=["p1"]),
                         "p1": _mini_pkg(tool={"path": "b1"})}, "env": {}, "serial": 1}
        nxt = copy.deepcopy(proj)
        nxt["pkgs"]["p1"]["src"]["files"]["a.txt"] = "m2"
        nxt["serial"] = 2
        states = [proj, nxt]
        run("A", 0, upload=True)
        run("R", 1)
        run("B", 1, download=r.choice(["yes", "forced-fallback", "packages"]), check=True)
        kind = "strong-tool"
    elif k == 3:
        # (import directory) same sources imported into another directory: the live-build-id of the sources must not map to the
        # checkout result of the other layout
        proj = {"pkgs": {"p0": _mini_pkg(["p1"]), "p1": _mini_pkg()}, "env": {}, "serial": 1}
        nxt = copy.deepcopy(proj)
        nxt["pkgs"]["p1"]["src"]["dir"] = "imp"
        nxt["serial"] = 2
        states = [proj, nxt]
        run("A", 0, upload=True)
        run("R", 1)
        run("B", 1, download=r.choice(["yes", "forced-fallback"]), check=True)
        kind = "import-dir"
    elif k == 4:
        # the host fingerprint changes inside the history of ONE workspace (with downloads before and after)
        proj = {"pkgs": {"p0": _mini_pkg(["p1"]), "p1": _mini_pkg(fingerprint=True)}, "env": {}, "serial": 1}
        states = [proj]
        run("A", 0, upload=True, h="h1")
        run("R", 0, h="h2")
        run("B", 0, download=r.choice(["yes", "deps", "packages"]), h="h1", check=True)
        run("B", 0, download=r.choice(["yes", "deps", "packages"]), h="h2", check=True)
        run("B", 0, download=r.choice(["yes", "deps"]), h="h1", check=True)
        kind = "fingerprint-history"
    elif k == 5:
        # diamond root -> [mid, lib], mid -> [lib]; the prediction for lib is wrong, `packages=^mid$`: mid is fetched
        # for the predicted sources before lib is checked out (lib and root are not eligible, so the wrong
        # prediction is always noticed); after the restart nothing of that artifact may survive
        proj = {"pkgs": {"p0": _mini_pkg(["p1", "p2"], src=False), "p1": _mini_pkg(["p2"], src=False), "p2": _mini_pkg()},
                "env": {}, "serial": 1}
        nxt = copy.deepcopy(proj)
        nxt["pkgs"]["p2"]["src"]["files"]["a.txt"] = "m2"
        nxt["serial"] = 2
        states = [proj, nxt]
        run("A", 0, upload=True)
        run("A2", 1, upload=True, fresh=True)
        steps.append({"do": "buildid", "how": "stale", "from": 0, "to": 1, "keep_old": True})
        run("B", 1, download="packages", check=True)
        run("B", 1, download="packages", check=True)
        kind = "mispredict-diamond"
        return {"kind": kind, "states": states, "steps": steps, "tseed": r.randrange(1 << 30), "pkgre": "^p1$"}
    elif k == 6:
        # one step with weakly AND strongly used tools, in both name orders (a weak tool name sorts before a strong one
        # and a strong one before a weak one; the tools are used through `use: [tools]` only, so that nothing but the
        # tool digest carries the difference): every strong tool changes its sources in turn, the consumer's artifact
        # of the earlier state must not be taken; finally a weak tool changes
        n = r.choice([3, 3, 4])
        tnames = sorted(r.sample(["ab", "b", "ba", "c0", "m", "p1", "p2", "zz"], n))
        while True:
            wk = [r.random() < 0.5 for _ in tnames]
            w_before_s = any(wk[i] and not wk[j] for i in range(n) for j in range(i + 1, n))
            s_before_w = any(not wk[i] and wk[j] for i in range(n) for j in range(i + 1, n))
            if w_before_s and s_before_w:
                break
        deps = list(tnames)
        r.shuffle(deps)
        weak = [t for t, w in zip(tnames, wk) if w]
        pkgs = {"p0": _mini_pkg(deps, useTools=list(deps), weakTools=list(weak), toolOnly=list(deps))}
        for t in tnames:
            pkgs[t] = _mini_pkg(tool={"path": "b1"})
        states = [{"pkgs": pkgs, "env": {}, "serial": 1}]
        strong = [t for t in tnames if t not in weak]
        r.shuffle(strong)
        for t in strong + [r.choice(weak)]:
            nxt = copy.deepcopy(states[-1])
            nxt["serial"] = len(states) + 1
            nxt["pkgs"][t]["src"]["files"]["a.txt"] = "m%d" % nxt["serial"]
            states.append(nxt)
        run("A", 0, upload=True)
        for i in range(1, len(states)):
            run("B" if r.random() < 0.7 else "B%d" % i, i, download=r.choice(["yes", "yes", "packages"]), check=True,
                upload=(i < len(states) - 1 and r.random() < 0.3))
        return {"kind": "mixed-tools", "states": states, "steps": steps, "tseed": r.randrange(1 << 30), "pkgre": "^p0$"}
    elif k == 2:
        # a stale live-build-id file: the wrong prediction has to be recovered completely, nothing may be uploaded
        # under the ids derived from it
        proj = {"pkgs": {"p0": _mini_pkg(["p1"]), "p1": _mini_pkg()}, "env": {}, "serial": 1}
        nxt = copy.deepcopy(proj)
        nxt["pkgs"]["p1"]["src"]["files"]["a.txt"] = "m2"
        nxt["serial"] = 2
        states = [proj, nxt]
        run("A", 0, upload=True)
        run("A2", 1, upload=True, fresh=True)
        steps.append({"do": "buildid", "how": "stale", "from": 0, "to": 1})
        run("B", 1, download=r.choice(["yes", "deps"]), upload=True, check=True)
        run("C", 0, download="yes", check=True)
        kind = "mispredict-upload"
    return {"kind": kind, "states": states, "steps": steps, "tseed": r.randrange(1 << 30), "pkgre": "^p[01]$"}


def gen_world(r, tier, idx=99):
    """a script of real invocations; everything a replay needs is in the returned dict"""
    if idx < N_DIRECTED:
        return directed_world(idx, r)
    P = _P()
    proj = P.gen_project(r, r.choice([2, 3, 3, 4]) if tier == "thorough" else r.choice([2, 3]))
    names = list(proj["pkgs"])
    # make the interesting features likely
    if r.random() < 0.6:
        proj["pkgs"][r.choice(names)]["fingerprint"] = True
    # one step that uses weak and strong tools together (tool names in random order relative to each other), the tools
    # reach it through `use: [tools]` only so that only the tool digest carries a difference of the tool
    mixed = None
    if r.random() < 0.4:
        cands = [nm for nm in names if len(proj["pkgs"][nm]["deps"]) >= 2]
        if cands:
            mixed = r.choice(cands)
            mp = proj["pkgs"][mixed]
            tl_ = list(mp["deps"])
            wk = r.sample(tl_, r.randrange(1, len(tl_)))
            mp["useTools"], mp["weakTools"], mp["toolOnly"] = list(tl_), list(wk), list(tl_)
            for d in tl_:
                if proj["pkgs"][d]["tool"] is None:
                    proj["pkgs"][d]["tool"] = {"path": "b1"}
    states = [proj]
    kind = r.choice(["pair", "pair", "history", "corrupt", "corrupt", "mispredict", "mispredict", "stale"])
    n_edits = {"pair": 1, "history": 3, "corrupt": 1, "mispredict": 1, "stale": 2}[kind]
    for _ in range(n_edits):
        kinds = P.SRC_KINDS + ["bscript", "var-value", "tool-path", "fingerprint", "pscript", "src-dir"] if r.random() < 0.7 else None
        nxt, _desc = P.edit(r, states[-1], states, kinds)
        states.append(nxt)
    mode = r.choice(MODES)
    dev = r.random() < 0.8
    host = r.choice(HOSTS)
    steps = []

    def run(ws, st, download="no", upload=False, h=None, check=False, expect_all=False, fresh=False):
        steps.append({"do": "run", "ws": ws, "state": st, "download": download, "upload": upload, "host": h or host,
                      "develop": dev, "check": check, "expect_all": expect_all, "fresh": fresh})

    if kind == "pair":
        run("A", 0, upload=True)
        same = r.random() < 0.5
        bh = host if (same or r.random() < 0.5) else [x for x in HOSTS if x != host][0]
        run("B", 0 if same else 1, download=mode, h=bh, check=True, expect_all=(same and bh == host))
        # the downloader moves on: a source-only edit changes Build-Ids but no Variant-Id
        bh2 = bh if r.random() < 0.5 else [x for x in HOSTS if x != bh][0]
        run("B", 1 if same else 0, download=r.choice(MODES), h=bh2, check=True)
    elif kind == "history":
        run("A", 0, upload=True)
        run("A", 1, upload=True, download=r.choice(["no", "yes"]))
        run("B", 1, download=mode, check=True)
        run("B", 2, download=r.choice(MODES), check=True, upload=r.random() < 0.5)
        run("C", 2, download=r.choice(MODES), check=True)
        run("B", 3, download=r.choice(MODES), check=True)
        run("B", 0, download=r.choice(MODES), check=True)
    elif kind == "corrupt":
        run("A", 0, upload=True)
        steps.append({"do": "corrupt", "how": r.choice(["truncate", "flip", "empty", "noaudit", "audit-mismatch", "garbage"]),
                      "pkgs": r.sample(names, r.randrange(1, len(names) + 1)), "of": 0})
        run("B", 0, download=mode, check=True)
        run("B", 0, download="no", check=True)
        run("B", 1, download=r.choice(MODES), check=True)
    elif kind == "mispredict":
        run("A", 0, upload=True)
        how = r.choice(["garbage", "stale"])
        if how == "stale":
            run("A2", 1, upload=True, fresh=True)
            steps.append({"do": "buildid", "how": "stale", "from": 0, "to": 1})
            run("B", 1, download=r.choice(["yes", "deps", "packages"]), upload=r.random() < 0.6, check=True)
            run("C", 0, download=r.choice(["yes", "deps"]), check=True)
        else:
            steps.append({"do": "buildid", "how": "garbage", "of": 0})
            run("B", 0, download=r.choice(["yes", "deps", "packages"]), upload=r.random() < 0.5, check=True)
            run("B", 1, download=r.choice(MODES), check=True)
    else:  # stale: the archive only knows other project states
        run("A", 0, upload=True)
        run("A", 1, upload=True)
        run("B", 2, download=mode, check=True)
        run("B", 1, download=r.choice(MODES), h=r.choice(HOSTS), check=True)
    return {"kind": kind, "states": states, "steps": steps, "tseed": r.randrange(1 << 30),
            "pkgre": "^(%s)$" % "|".join(r.sample(names, r.randrange(1, len(names) + 1)))}


def _mode_arg(mode, world):
    return "packages=" + world["pkgre"] if mode == "packages" else mode


def _tamper_file(path, how, rnd):
    import gzip
    import io
    import tarfile
    data = open(path, "rb").read()
    if how == "truncate":
        data = data[:max(1, len(data) * rnd.randrange(20, 90) // 100)]
    elif how == "flip":
        k = rnd.randrange(len(data) // 2, len(data))
        data = data[:k] + bytes([data[k] ^ 0x5a]) + data[k + 1:]
    elif how == "empty":
        data = b""
    elif how == "garbage":
        data = bytes(rnd.randrange(256) for _ in range(200))
    else:
        # re-pack: drop the audit trail, or change the content under the unchanged audit trail
        src = tarfile.open(fileobj=io.BytesIO(data), mode="r:gz")
        buf = io.BytesIO()
        with gzip.GzipFile(fileobj=buf, mode="wb", mtime=0) as gz:
            dst = tarfile.open(fileobj=gz, mode="w", format=tarfile.PAX_FORMAT, pax_headers=dict(src.pax_headers))
            changed = False
            for m in src.getmembers():
                f = src.extractfile(m) if m.isfile() else None
                if how == "noaudit" and m.name == "meta/audit.json.gz":
                    continue
                if how == "audit-mismatch" and m.isfile() and m.name.startswith("content/") and not changed:
                    body = f.read() + b"tampered\n"
                    m.size = len(body)
                    f = io.BytesIO(body)
                    changed = True
                dst.addfile(m, f)
            dst.close()
        data = buf.getvalue()
    os.chmod(path, 0o644)
    with open(path, "wb") as f:
        f.write(data)


def run_world(arg):
    """executes one world script on the real implementation (module level: runs in a forked worker)"""
    world, repo, tmp, deadline, seed = arg
    P = _P()
    res = {"violations": [], "hist": {}, "dlcalls": [], "invs": [], "skipped": None, "n": 0, "t": time.time()}

    def count(h, k):
        res["hist"].setdefault(h, {})
        res["hist"][h][k] = res["hist"][h].get(k, 0) + 1

    def viol(what, sig, extra=None):
        res["violations"].append({"what": what, "signature": sig, "case": {"kind": "world", "world": world, "detail": extra}})

    rnd = random.Random("tamper-%s" % world.get("tseed", seed))
    W = P.World(tmp, repo)
    wss = {}
    runs = {}          # step index -> observation summary of a run step
    table = []         # (pkg name, bid, snapshot id, state key, host, where)
    refs = {}
    tampered = set()   # archive files that were tampered with (by build-id hex)
    live_tampered = False
    try:
        for si, step in enumerate(world["steps"]):
            if time.time() > deadline:
                res["skipped"] = "out of time after %d steps" % si
                break
            if step["do"] == "corrupt":
                src = runs[step["of"]]
                for name in step["pkgs"]:
                    b = src["bids"].get(name)
                    if b is None:
                        continue
                    f = P.archive_path(W.archive, b)
                    if os.path.exists(f):
                        _tamper_file(f, step["how"], rnd)
                        tampered.add(b)
                        count("tamper", step["how"])
                continue
            if step["do"] == "buildid":
                live_tampered = True
                if step["how"] == "garbage":
                    for liv in runs[step["of"]]["live"].values():
                        f = P.archive_path(W.archive, liv[0], ".buildid")
                        if os.path.exists(f):
                            os.chmod(f, 0o644)
                            with open(f, "wb") as fd:
                                fd.write(bytes(rnd.randrange(256) for _ in range(20)))
                            count("tamper", "buildid-garbage")
                else:
                    old, new = runs[step["from"]], runs[step["to"]]
                    for path, liv in new["live"].items():
                        o = old["live"].get(path)
                        if o is None or o[1] == liv[1]:
                            continue
                        f = P.archive_path(W.archive, liv[0], ".buildid")
                        if os.path.exists(f):
                            os.chmod(f, 0o644)
                            with open(f, "wb") as fd:
                                fd.write(bytes.fromhex(o[1]))
                            count("tamper", "buildid-stale")
                    # what could be fetched under the stale ids must not be there (else the wrong prediction is
                    # undetectable by design): remove the artifacts only the old state has - unless the script of
                    # the world makes sure that the mispredicted package is checked out anyway
                    for name, b in ([] if step.get("keep_old") else old["bids"].items()):
                        if new["bids"].get(name) != b:
                            f = P.archive_path(W.archive, b)
                            if os.path.exists(f):
                                os.unlink(f)
                continue
            # ---- a real invocation
            was_fresh = step.get("fresh") or step["ws"] not in wss
            if was_fresh:
                wss[step["ws"]] = W.workspace(step["ws"])
            ws = wss[step["ws"]]
            proj = world["states"][step["state"]]
            ws.render(proj)
            tmo = max(5, min(120, deadline - time.time()))
            obs = ws.run(develop=step["develop"], download=_mode_arg(step["download"], world), upload=step["upload"],
                         host=step["host"], timeout=tmo)
            res["n"] += 1
            count("mode", step["download"])
            if obs["rc"] in ("timeout", "harness-error") or obs["dump"] is None and obs["rc"] != 1:
                res["skipped"] = "invocation %d: %s %s" % (si, obs["rc"], (obs["error"] or "")[-200:])
                break
            summ = summarize(P, ws, obs, proj, step)
            summ["rc"], summ["state"] = obs["rc"], step["state"]
            runs[si] = summ
            res["dlcalls"].extend(summ["dlcalls"])
            res["invs"].append(summ["inv"])
            for k in summ["counts"]:
                count("events", k)
            # --- trace form of accepted => verified
            for w in summ["trace_violations"]:
                viol(w, "accepted-download-unverified", {"step": si})
            if obs["rc"] != 0:
                ok_reason = None
                if step["download"].startswith("forced") and summ["missing_forced"]:
                    ok_reason = "forced download of a missing artifact"
                if summ["requested"] & tampered:
                    ok_reason = "corrupt artifact rejected"
                if live_tampered and step["download"].startswith("forced"):
                    ok_reason = "forced download under a wrong prediction"
                count("failed", ok_reason or "UNEXPECTED")
                if ok_reason is None:
                    viol("invocation failed: %s" % (obs["error"],), "build-failed-with-downloads",
                         {"step": si, "stdout": obs["stdout"][-1500:]})
                # a rejected artifact must not be recorded as downloaded
                for name, inp in summ["inputs"].items():
                    if isinstance(inp, dict) and inp.get("downloaded") in tampered:
                        viol("corrupt artifact of %s recorded as downloaded" % name, "unverified-download-recorded", {"step": si})
                continue
            for name, (b, snap) in summ["results"].items():
                if name in summ["touched"]:
                    table.append((name, b, snap, P.state_key(proj), step["host"], "%s#%d" % (step["ws"], si)))
            # (4) the recorded build-id of what was built or fetched in this invocation is the final one
            for name, inp in summ["inputs"].items():
                fb = summ["bids"].get(name)
                rb = inp.get("downloaded") if "downloaded" in inp else (inp.get("built") or [None])[0]
                if name in summ["fresh"] and fb is not None and rb != fb:
                    viol("package %s recorded under build-id %s, final build-id %s" % (name, rb, fb), "recorded-bid-not-final", {"step": si})
            key = (step["state"], step["host"], step["develop"])
            if was_fresh and step["download"] == "no" and key not in refs:
                refs[key] = summ      # a purely local build in a fresh workspace is a reference
            if not step["check"]:
                continue
            # (1) same result as a purely local build of the same state on the same host
            if key not in refs:
                if time.time() > deadline:
                    res["skipped"] = "out of time before the reference build"
                    break
                rw = W.workspace("R%d" % len(refs))
                rw.render(proj, archive=False)
                ro = rw.run(develop=step["develop"], download="no", host=step["host"], timeout=max(5, min(120, deadline - time.time())))
                res["n"] += 1
                if ro["rc"] != 0:
                    res["skipped"] = "reference build: %s" % ro["rc"]
                    break
                rs = summarize(P, rw, ro, proj, {"download": "no"})
                refs[key] = rs
                for name, (b, snap) in rs["results"].items():
                    table.append((name, b, snap, P.state_key(proj), step["host"], "ref"))
            ref = refs[key]
            for name in sorted(summ["touched"]):
                got = summ["results"].get(name, (None, None))[1]
                want = ref["results"].get(name, (None, None))[1]
                if got != want:
                    viol("package %s differs from the local build (mode %s): %s vs %s" % (name, step["download"], got, want),
                         "download-result-differs-from-local-build",
                         {"step": si, "got": summ["manifest"].get(name), "want": ref["manifest"].get(name)})
            # (2) nothing at or below the download depth is built when everything was uploaded
            if step["expect_all"] and not summ["mispredicts"] and not tampered and not live_tampered:
                for name, d in summ["dl_depth"].items():
                    if not d["tried_expected"]:
                        continue
                    if not d["downloaded"]:
                        viol("package %s (depth %d, mode %s) was uploaded by the same project state but not downloaded" %
                             (name, d["depth"], step["download"]), "uploaded-not-downloaded", {"step": si})
                    if name in summ["ran_pkgs"]:
                        viol("package %s at/below the download depth executed a script" % name, "uploaded-not-downloaded", {"step": si})
        # (2)/(3) over everything the world produced
        by_bid = {}
        by_state = {}
        for name, b, snap, sk, host, where in table:
            if b is None:
                continue
            o = by_bid.setdefault(b, (snap, name, sk, host, where))
            if o[0] != snap:
                viol("build-id %s: %s (%s) and %s (%s) have different results" % (b, o[4], o[2], where, sk),
                     "equal-bid-different-result", {"a": o[1:], "b": (name, sk, host, where)})
            o2 = by_state.setdefault((name, sk, host), (b, where))
            if o2[0] != b:
                viol("package %s, same project state and host, different build-ids at %s and %s" % (name, o2[1], where),
                     "same-state-different-bid", None)
        # (5) two project states that differ only in the sources of one package: every package that consumes it (its
        # result, or a tool of it strongly; transitively) has another Build-Id, whatever else the step uses
        if not live_tampered:
            ok_runs = [(si, sm) for si, sm in sorted(runs.items()) if sm.get("rc") == 0]
            seen5 = set()
            for ai, (si, a) in enumerate(ok_runs):
                for sj, b in ok_runs[ai + 1:]:
                    if a["state"] == b["state"] or (a["state"], b["state"]) in seen5:
                        continue
                    pa, pb = world["states"][a["state"]], world["states"][b["state"]]
                    t = src_only_diff(pa, pb)
                    if t is None:
                        continue
                    count("src-only-pairs", "compared")
                    for name in sorted(consumers_of(pb, t)):
                        ba, bb = a["bids"].get(name), b["bids"].get(name)
                        if ba is None or bb is None:
                            continue
                        mixed = bool(pb["pkgs"][name]["weakTools"]) and len(pb["pkgs"][name]["useTools"]) > len(pb["pkgs"][name]["weakTools"])
                        count("src-only-consumer", "mixed weak/strong tools" if mixed else "plain")
                        if ba == bb:
                            seen5.add((a["state"], b["state"]))
                            dl = [x for x in (si, sj) if runs[x]["dl_depth"].get(name, {}).get("downloaded")]
                            viol("states %d and %d differ only in the sources of %s, but package %s (deps %s, strong tools %s, weak tools %s) "
                                 "has the same Build-Id %s in both (steps %d and %d%s)" %
                                 (a["state"], b["state"], t, name, pb["pkgs"][name]["deps"],
                                  [d for d in pb["pkgs"][name]["useTools"] if d not in pb["pkgs"][name]["weakTools"]],
                                  pb["pkgs"][name]["weakTools"], ba, si, sj, "; downloaded in step %s" % dl if dl else ""),
                                 "source-change-same-build-id", {"steps": [si, sj], "changed": t, "package": name})
    finally:
        P.shutdown_servers()
        W.destroy()
    res["t"] = time.time() - res["t"]
    return res


def src_only_diff(a, b):
    """name of the package whose import sources are the only difference between two project states, else None"""
    if list(a["pkgs"]) != list(b["pkgs"]) or a["env"] != b["env"]:
        return None
    diff = [n for n in a["pkgs"] if a["pkgs"][n] != b["pkgs"][n]]
    if len(diff) != 1:
        return None
    pa, pb = a["pkgs"][diff[0]], b["pkgs"][diff[0]]
    if not pa["src"] or not pb["src"] or pa["src"]["dir"] != pb["src"]["dir"]:
        return None
    if {k: v for k, v in pa.items() if k != "src"} != {k: v for k, v in pb.items() if k != "src"}:
        return None
    return diff[0]


def consumers_of(proj, t):
    """t and the packages whose result depends on the content of package t by the recipes: through a dependency whose
    result is used, or through a strongly used tool - a weakly used tool alone does not count"""
    aff = {t}
    changed = True
    while changed:
        changed = False
        for name, pkg in proj["pkgs"].items():
            if name in aff:
                continue
            for d in pkg["deps"]:
                if d in aff and (d not in pkg.get("toolOnly", []) or (d in pkg["useTools"] and d not in pkg["weakTools"])):
                    aff.add(name)
                    changed = True
                    break
    return aff


def summarize(P, ws, obs, proj, step):
    """what the checks need from one observation"""
    steps = (obs["dump"] or {"steps": {}})["steps"]
    pk = {p: s for p, s in steps.items() if s["kind"] == "package"}
    name_of = {p: s["name"] for p, s in steps.items()}
    st = ws.state()
    inputs = st.get("inputs", {})
    from gen import c07_child as ch
    bids, live, touched, ran, counts = {}, {}, set(), set(), {}
    dl_depth, dlcalls = {}, []
    requested, missing_forced = set(), False
    mispredicts = 0
    fresh = set()      # packages built or fetched (not skipped) in the final round
    trace_violations = []
    cur = {}
    pending = {}
    for e in obs["log"]:
        k = e[0]
        counts[k] = counts.get(k, 0) + 1
        if k == "bid" and e[2] == "package":
            bids[name_of.get(e[1], e[1])] = e[3]
        elif k == "upLive":
            live[e[1]] = (e[2], e[3])
        elif k == "dlLive":
            pass
        elif k == "mispredict":
            # the round is abandoned: only what the restarted round cooks counts
            mispredicts += 1
            touched.clear()
            fresh.clear()
            dl_depth.clear()
        elif k == "run":
            if e[2] in ("build", "package"):
                ran.add(name_of.get(e[1], e[1]))
            if e[2] == "package":
                touched.add(name_of.get(e[1], e[1]))
                fresh.add(name_of.get(e[1], e[1]))
        elif k == "dlEnter":
            cur[e[1]] = {"enter": e[2], "ops": [], "path": e[1]}
            touched.add(name_of.get(e[1], e[1]))
        elif k == "dlExit":
            c = cur.pop(e[1], None)
            if c is not None:
                c["exit"] = e[2]
                dlcalls.append(c)
                n = name_of.get(e[1], e[1])
                dd, df = DOC_DEPTH[step["download"].split("=")[0]]
                ent = c["enter"]
                tried_expected = ent["depth"] >= dd or ent["cfg"]["pkgMatch"]
                dl_depth[n] = {"depth": ent["depth"], "tried_expected": tried_expected, "downloaded": bool(e[2].get("downloaded"))}
                if e[2].get("downloaded"):
                    touched.add(n)
                if "error" in e[2] and "Downloading artifact" in e[2]["error"]:
                    missing_forced = True
        elif k == "download":
            requested.add(e[2])
            pending[e[1]] = {"hash": None, "audit": None}
            if e[3] is True:
                fresh.add(name_of.get(e[1], e[1]))
        elif k == "hash" and e[1] in pending:
            pending[e[1]]["hash"] = e[2]
        elif k == "auditRead" and e[1] in pending:
            pending[e[1]]["audit"] = e[2]
        elif k == "setInputs" and isinstance(e[2], dict) and "downloaded" in e[2]:
            pd = pending.get(e[1])
            if pd is None or pd["hash"] is None or pd["audit"] is None or pd["hash"] != pd["audit"]:
                trace_violations.append("setInputs(%s, downloaded) without a verified download before it: %r" % (e[1], pd))
        if k in ("reset", "emptyDir", "rmAudit", "download", "hash", "auditRead", "setInputs", "setResult", "setVid", "delInputs", "run"):
            for c in cur.values():
                if c["path"] == e[1]:
                    c["ops"].append(e)
    results, manifest = {}, {}
    for p, s in pk.items():
        snap = ws.dist(p)
        if snap is not None:
            results[s["name"]] = (bids.get(s["name"]), P.snap_id(snap))
            manifest[s["name"]] = snap
    inp = {}
    for p, s in pk.items():
        v = inputs.get(p)
        if v is not None:
            inp[s["name"]] = ch.canon_inputs(v)
    inv = {"dump": obs["dump"], "log": [e for e in obs["log"] if e[0] in
                                          ("bid", "srcbid", "fp", "mispredict", "dlEnter", "dlExit", "download", "run", "upload", "setInputs")],
           "rc": obs["rc"], "argv": obs["argv"]}
    return {"bids": bids, "live": live, "fresh": fresh & set(results), "touched": touched & set(results), "ran_pkgs": ran, "counts": counts, "dl_depth": dl_depth,
            "dlcalls": dlcalls, "requested": requested, "missing_forced": missing_forced, "mispredicts": mispredicts,
            "trace_violations": trace_violations, "results": results, "manifest": manifest, "inputs": inp, "inv": inv}


# =============================================================================================== oracle

def oracle(ctx):
    worlds_phase(ctx)
    unit_phase(ctx)


def unit_phase(ctx):
    # ---- (U) `_downloadPackage` alone
    r = ctx.subrng("unit")
    n = ctx.scale(1000, 12000)
    cases = [gen_unit_case(r) for _ in range(n)]
    got = []
    t0 = time.time()
    for lo in range(0, n, 250):
        if lo > 0 and tl(ctx) < 40:      # the first batch always runs
            ctx.skip("unit oracle stopped after %d of %d cases (time)" % (lo, n))
            break
        out = run_unit_batch(ctx, cases[lo:lo + 250], "o%d" % lo)
        if out is None:
            break
        got.extend(zip(cases[lo:lo + 250], out))
    _WORLD_CACHE["unit"] = got
    for c, res in got:
        tried = spec_try(c)[0]
        ctx.case(key=c, nontrivial=tried, sample={"unit": c} if tried else None)
        ctx.count("unit-outcome", "error:" + res["ret"]["error"] if "error" in res.get("ret", {}) else str(res.get("ret")))
        for what, sig in unit_oracle(c, res):
            ctx.violation(what, {"kind": "unit", "case": c}, sig)
    ctx.notes["unit_s"] = round(time.time() - t0, 1)


def worlds_phase(ctx):
    # ---- (W) worlds of real builds
    t0 = time.time()
    wr = ctx.subrng("worlds")
    nw = ctx.scale(12, 200)
    worlds = [gen_world(random.Random(wr.random()), ctx.tier, i) for i in range(nw)]
    results = [None] * nw
    # one complete world of each directed kind is guaranteed, whatever the load of the machine: these get a deadline
    # that only the per-invocation time-outs bound; the random worlds share what is left of the budget
    hard = time.time() + max(tl(ctx) * 0.55, 900.0)

    def batch(idx, deadline):
        args = [(worlds[i], ctx.repo, os.path.join(ctx.tmp, "w%d" % i), deadline, "%d-%d" % (ctx.seed, i)) for i in idx]
        workers = min(len(args), max(2, (os.cpu_count() or 4) // 2))
        try:
            out = ctx.parallel(run_world, args, workers=workers)
        except Exception as e:  # noqa
            ctx.skip("worlds: %s" % e)
            return
        for i, res in zip(idx, out):
            results[i] = res
    batch(list(range(min(N_DIRECTED, nw))), hard)
    rest = list(range(N_DIRECTED, nw))
    if rest:
        if tl(ctx) < 40:
            ctx.skip("random worlds: no time left (%.0f s)" % tl(ctx))
        else:
            batch(rest, time.time() + tl(ctx) * 0.55)
    pairs = [(w, res) for w, res in zip(worlds, results) if res is not None]
    _WORLD_CACHE["worlds"] = pairs
    done = 0
    for w, res in pairs:
        if res["skipped"]:
            ctx.skip("world (%s): %s" % (w["kind"], res["skipped"][:120]))
        else:
            done += 1
            ctx.count("world-complete", w["kind"])
        for _ in range(res["n"]):
            ctx.case(key=None)
        ctx.case(key={"steps": w["steps"], "states": [_P().state_key(s) for s in w["states"]]},
                 sample={"world": w["kind"], "steps": [(s.get("ws"), s.get("state"), s.get("download")) if s["do"] == "run" else s["do"] for s in w["steps"]]})
        ctx.count("world-kind", w["kind"])
        for h, d in res["hist"].items():
            for k, v in d.items():
                ctx.count(h, k, v)
        for v in res["violations"]:
            ctx.violation(v["what"], v["case"], v["signature"])
    ctx.notes["worlds_s"] = round(time.time() - t0, 1)
    ctx.notes["worlds_done"] = done


# =============================================================================================== correspondence

def correspond(ctx):
    # ---- (C0) mode table
    reqs = []
    keys = []
    for m in ["no"] + MODES:
        for can in (False, True):
            reqs.append({"op": "mode", "mode": m, "can": can})
            keys.append((m, can))
    reps = ctx.lean(DRIVER, reqs)
    for (m, can), rep in zip(keys, reps):
        dd, df = DOC_DEPTH[m]
        if m in ("yes", "deps") and not can:
            dd = 0xffff
        ctx.case(key=("mode", m, can))
        if (rep.get("depth"), rep.get("depthForce")) != (dd, df):
            ctx.disagree("setDownloadMode == documented depth table", {"mode": m, "can": can}, [dd, df], rep)
    # ---- (C1) the unit stream
    got = _WORLD_CACHE.get("unit") or []
    r = ctx.subrng("unit-corr")
    extra_n = ctx.scale(500, 8000)
    extra = [gen_unit_case(r) for _ in range(extra_n)]
    for lo in range(0, extra_n, 250):
        if tl(ctx) < 25:
            ctx.skip("unit correspondence stopped after %d extra cases (time)" % lo)
            break
        out = run_unit_batch(ctx, extra[lo:lo + 250], "c%d" % lo)
        if out is None:
            break
        got = got + list(zip(extra[lo:lo + 250], out))
    reps = ctx.lean(DRIVER, [unit_request(c) for c, _ in got]) if got else []
    bad = 0
    for (c, res), rep in zip(got, reps):
        ctx.case(key=("corr", c), nontrivial=spec_try(c)[0])
        ctx.trace_validated(1)
        ctx.count("unit-branch", "%s/%s" % (rep.get("out"), len(rep.get("ops", []))))
        d = unit_compare(c, res, rep)
        if d is not None:
            bad += 1
            ctx.disagree("_downloadPackage == Download.dlOps (ops, outcome, final state)", c, res, {"diff": d, "model": rep})
            for what, sig in unit_oracle(c, res):
                ctx.violation(what, {"kind": "unit", "case": c}, sig)
    # ---- (C2) real `_downloadPackage` calls, (C3) real invocations
    worlds = _WORLD_CACHE.get("worlds") or []
    reqs, metas = [], []
    for w, res in worlds:
        for call in res["dlcalls"]:
            q = real_call_request(call)
            if q is not None:
                reqs.append(q)
                metas.append(call)
    reps = ctx.lean(DRIVER, reqs) if reqs else []
    for call, q, rep in zip(metas, reqs, reps):
        ctx.case(key=("realcall", q))
        ctx.trace_validated(1)
        d = real_call_compare(call, rep)
        ctx.count("real-dl-branch", "%s/%s" % (rep.get("out"), len(rep.get("ops", []))))
        if d is not None:
            ctx.disagree("real _downloadPackage call == Download.dlOps (decision, ops, inputs form)", {"enter": call["enter"], "exit": call["exit"]},
                         [o[:1] + o[2:] for o in call["ops"]], {"diff": d, "model": rep})
    # ---- (C4) Build-Ids of the real invocations, bit-exact
    breqs, bmeta, bseen = [], [], set()
    for w, res in worlds:
        for inv in res["invs"]:
            for q, want, path, cat in bid_requests(inv):
                k = json.dumps(q, sort_keys=True)
                ctx.count("bid-step", cat)
                if k in bseen:
                    continue
                bseen.add(k)
                breqs.append(q)
                bmeta.append((want, path, cat, inv["argv"], w["kind"]))
    breps = ctx.lean(DRIVER, breqs) if breqs else []
    for q, (want, path, cat, argv, wkind), rep in zip(breqs, bmeta, breps):
        ctx.case(key=("bid", json.dumps(q, sort_keys=True)))
        ctx.trace_validated(1)
        if rep.get("ok") != want:
            ctx.disagree("Build-Id computed by the builder (StepIR.getDigestCoro, relaxTools) == Digest.buildId with SHA-1",
                         {"world": wkind, "argv": argv, "step": path, "tools": cat, "req": q}, want, rep.get("ok", rep))
    creqs, cmeta = [], []
    for w, res in worlds:
        for inv in res["invs"]:
            q = cook_request(inv)
            if q is not None:
                creqs.append(q[0])
                cmeta.append((inv, q[1]))
    creps = ctx.lean(DRIVER, creqs) if creqs else []
    for (inv, impl), rep in zip(cmeta, creps):
        ctx.case(key=("cook", inv["argv"], json.dumps(inv["log"])[:2000]))
        ctx.trace_validated(1)
        for k in impl:
            ctx.count("cook-decision", k[0])
        d = cook_compare(impl, rep)
        if d is not None:
            ctx.disagree("real invocation == Download.cook (per package downloaded/built, package level ops)", {"argv": inv["argv"]},
                         d.get("impl"), d.get("model"))


def bid_requests(inv):
    """(C4) the Build-Id of every build / package step of one real invocation, recomputed by Digest.buildId from the
    dumped step description and the Build-Ids / fingerprints the builder logged for its inputs.
    returns [(request, implementation Build-Id, step path, tool category)]"""
    dump = inv["dump"]
    if not dump or inv["rc"] != 0 or "platform" not in dump:
        return []
    log = inv["log"]
    if any(e[0] == "mispredict" for e in log):
        return []       # the inputs of a Build-Id change between the rounds
    bids, fps = {}, {}
    for e in log:
        if e[0] == "bid":
            bids.setdefault(e[1], set()).add(json.dumps(e[3]))
        elif e[0] == "fp":
            fps.setdefault(e[1], set()).add(json.dumps(e[2]))
    if any(len(v) != 1 for v in bids.values()) or any(len(v) != 1 for v in fps.values()):
        return []
    bid = {p: json.loads(next(iter(v))) for p, v in bids.items()}
    fp = {p: json.loads(next(iter(v))) for p, v in fps.items()}
    out = []
    for p, s in sorted(dump["steps"].items()):
        if s["kind"] == "checkout" or not isinstance(bid.get(p), str):
            continue
        # the digest of a weakly used tool does not enter the Build-Id: the builder need not have computed it
        need = [t["step"] for t in s["tools"] if not t["weak"]] + list(s["args"])
        if any(not isinstance(bid.get(x), str) for x in need) or not isinstance(fp.get(p, ""), str):
            continue
        tools = [{"name": t["name"], "prov": bid.get(t["step"]) if isinstance(bid.get(t["step"]), str) else "00" * 20,
                  "path": t["path"], "libs": list(t["libs"]), "weak": bool(t["weak"])} for t in s["tools"]]
        wk = [bool(t["weak"]) for t in sorted(s["tools"], key=lambda t: t["name"])]
        n = len(wk)
        w_s = any(wk[i] and not wk[j] for i in range(n) for j in range(i + 1, n))
        s_w = any(not wk[i] and wk[j] for i in range(n) for j in range(i + 1, n))
        cat = ("no tools" if not wk else "weak<strong and strong<weak" if w_s and s_w else "weak<strong" if w_s
               else "strong<weak" if s_w else "weak only" if all(wk) else "strong only")
        req = {"op": "bid", "script": s["script"], "tools": tools, "env": [list(kv) for kv in s["env"]],
               "args": [bid[a] for a in s["args"]], "host": fp.get(p, ""), "platform": dump["platform"]}
        out.append((req, bid[p], p, s["kind"] + ": " + cat))
    return out


def real_call_request(call):
    ent = call["enter"]
    ops = call["ops"]
    inp = ent["inputs"]
    if inp is None:
        minp = None
    elif "built" in inp:
        b = inp["built"]
        if not b:
            minp = "legacy"
        else:
            minp = {"built": [b[0], [None if h is None else ({"forged": 0} if isinstance(h, dict) else {"hash": "R:" + h}) for h in b[1:]]]}
    elif "downloaded" in inp:
        minp = {"downloaded": inp["downloaded"]}
    elif "shared" in inp:
        minp = {"shared": [inp["shared"][0], inp["shared"][1]]}
    else:
        return None
    res = ent["result"]
    mres = None if res is None else ({"forged": 0} if isinstance(res, dict) else {"hash": "R:" + res})
    # the archive entry as the transport call saw it
    dl = [o for o in ops if o[0] == "download"]
    art = None
    if dl:
        r = dl[0][3]
        if isinstance(r, dict):
            art = "broken"
        elif r is True:
            h = next((o[2] for o in ops if o[0] == "hash"), None)
            a = next((o for o in ops if o[0] == "auditRead"), None)
            if h is None:
                # extraction worked, the audit trail is missing (the verification stops before hashing)
                art = {"good": "c:?", "audit": None}
            else:
                c = "c:" + h
                art = {"good": c, "audit": None if a is None else ("H(%s)" % c if a[2] == h else "A:" + str(a[2]))}
    cfg = ent["cfg"]
    if cfg["layerModes"]:
        return None
    return {"op": "dl", "cfg": {"dlDepth": cfg["depth"], "dlDepthForce": cfg["depthForce"], "can": True, "force": cfg["force"],
                                 "upload": False, "uploadDepth": 0xffff},
            "depth": ent["depth"], "bid": ent["bid"],
            "info": {"path": call["path"], "vid": ent["vid"], "rsig": "r", "src": "s", "pred": None, "pkgMatch": cfg["pkgMatch"],
                     "layerMode": None},
            "loc": {"res": mres, "inp": minp, "dir": None, "vidv": None, "disk": "old" if ent["exists"] else None, "audit": None},
            "art": art}


def real_call_compare(call, rep):
    ex = call["exit"]
    want = "error" if "error" in ex else ("downloaded" if ex["downloaded"] else "no")
    if rep.get("out") != want:
        return "outcome: impl %s model %s" % (want, rep.get("out"))
    mo = [o for o in canon_model_ops(rep["ops"])]
    mnames = [o[0] for o in mo]
    rnames = [{"hash": "hash"}.get(o[0], o[0]) for o in call["ops"]]
    if mnames != rnames:
        return "ops: impl %r model %r" % (rnames, mnames)
    # the inputs form that is written
    rin = [o[2] for o in call["ops"] if o[0] == "setInputs"]
    min_ = [o[1] for o in mo if o[0] == "setInputs"]
    if rin != min_:
        return "inputs written: impl %r model %r" % (rin, min_)
    return None


def cook_request(inv):
    """one real invocation on workspaces without history against Download.cook: which packages are downloaded /
    built, in which order (package level); returns (request, implementation decisions) or None"""
    dump = inv["dump"]
    if not dump or inv["rc"] != 0:
        return None
    steps = dump["steps"]
    log = inv["log"]
    if any(e[0] == "mispredict" for e in log):
        return None     # predictions are compared by (C2) and the oracle; the tree below has pred = none
    enters = [e for e in log if e[0] == "dlEnter"]
    if any(e[2]["inputs"] is not None or e[2]["result"] is not None or e[2]["exists"] for e in enters):
        return None     # only fresh workspaces (the model state would need the whole history)
    if not enters or any(e[2]["cfg"]["layerModes"] for e in enters):
        return None
    cfg = enters[0][2]["cfg"]
    roots = dump["roots"]
    if len(roots) != 1:
        return None
    bid_of = {}
    for e in log:
        if e[0] == "bid":
            bid_of[e[1]] = e[3]
    pkgmatch = {e[1]: e[2]["cfg"]["pkgMatch"] for e in enters}

    def dist_deps(p):
        """package steps a package step depends on (through its build step)"""
        out = []
        for b in steps[p]["deps"]:
            for d in steps[b]["deps"]:
                if steps[d]["kind"] == "package":
                    out.append(d)
        return out

    rows = []

    def tree(p):
        ds = [tree(d) for d in dist_deps(p)]
        rows.append([p, "s", [bid_of.get(d, "?" + d) for d in dist_deps(p)], bid_of.get(p, "?" + p)])
        return {"path": p, "vid": steps[p]["vid"], "rsig": p, "src": "s", "pred": None, "pkgMatch": bool(pkgmatch.get(p, False)),
                "layerMode": None, "deps": ds}
    t = tree(roots[0])
    # archive: what the transport calls found
    arch = {}
    for e in log:
        if e[0] == "download":
            if e[3] is True:
                arch[e[2]] = {"good": "c:" + e[2], "audit": "H(c:%s)" % e[2]}
            elif isinstance(e[3], dict):
                arch[e[2]] = "broken"
    upload = any(e[0] == "upload" and e[4] for e in log)
    req = {"op": "cook", "cfg": {"dlDepth": cfg["depth"], "dlDepthForce": cfg["depthForce"], "can": True, "force": cfg["force"],
                                  "upload": upload, "uploadDepth": 0xffff},
           "tree": t, "state": {}, "arch": arch, "bids": rows}
    impl = []
    for e in log:
        if e[0] == "dlExit" and e[2].get("downloaded"):
            impl.append(["downloaded", e[1]])
        elif e[0] == "run" and e[2] == "package":
            impl.append(["built", e[1]])
        elif e[0] == "upload" and e[4]:
            impl.append(["upload", e[1], e[2]])
    return req, impl


def cook_compare(impl, rep):
    if rep.get("res") != "ok":
        return {"impl": "ok", "model": rep.get("res")}
    model = []
    for o in rep["log"]:
        if o[0] == "setResult" and isinstance(o[2], dict) and "hash" in o[2] and o[2]["hash"].startswith("H(c:"):
            model.append(["downloaded", o[1]])
        elif o[0] == "runPackage":
            model.append(["built", o[1]])
        elif o[0] == "upload":
            model.append(["upload", o[1], o[2]])
    if impl != model:
        return {"impl": impl, "model": model}
    return None


# =============================================================================================== replay

def replay(ctx, case):
    if case.get("kind") == "unit":
        c = case["case"]
        out = run_unit_batch(ctx, [c], "replay")
        if out:
            for what, sig in unit_oracle(c, out[0]):
                ctx.violation(what, case, sig)
        return
    if case.get("kind") == "world":
        w = case["world"]
        res = run_world((w, ctx.repo, os.path.join(ctx.tmp, "replay"), time.time() + 600, "replay"))
        for v in res["violations"]:
            ctx.violation(v["what"], v["case"], v["signature"])


MANIFEST = {
    "text": "Proved in Lean for all projects, histories, download modes/depths and archives whose entries are Honest or Corrupt "
            "(Props/C07.lean, 25 theorems): honest_archive (a cook with downloads ends with the same package contents as a local "
            "build), invariant_preserved, accepted_download_verified (a downloaded result is recorded only with an audit trail that "
            "records the hash of the workspace content), corrupt_rejected, stale_download_pruned, misprediction_restart and "
            "restart_terminates, upload_then_download_no_build (archive completeness as explicit hypothesis), bid_pure / "
            "bid_sensitive / bid_propagates_arg / bid_location_free over the byte-exact Build-Id encoding of Model/Digest.lean; "
            "bid_injective is _partial (ToolsFramed + HostFramed; the unrestricted goal is refuted by a witness). The model "
            "(Model/Download.lean) is a hand-written transliteration of the download/upload/restart logic of builder.py, tied to "
            "the source by constants regenerated with ast (mode table of __setDownloadMode evaluated for every mode, initial depths, "
            "platform tag parts) and by a differential run: a unit stream through the real LocalBuilder._downloadPackage and mode "
            "setters, every real _downloadPackage call and every fresh-workspace invocation of the world oracle against dlOps/cook. "
            "Oracle: real upload/download worlds (one LocalArchive, workspaces at different paths, host fingerprint changes within one "
            "workspace history, strong tools, corrupt/stale artifacts, wrong live-build-id predictions incl. diamond + packages= filter, "
            "all download modes) compared with purely local builds.",
    "note": "trusted: Lean kernel, harness/props/c07.py + harness/gen/c07_*.py, tools/consts/c07.py, SHA-1 collision freedom on the "
            "compared encodings (hypothesis), the tar codec (C08), scripts deterministic; archive assumed Honest-or-Corrupt (an internally "
            "consistent artifact filed under a foreign Build-Id is outside the assumption); not covered: shared packages, Jenkins mode, "
            "--build-only/--no-deps/--resume, -j>1, audit disabled",
    "technique": "Lean 4 proof over hand-written model + differential correspondence (real _downloadPackage calls and invocations) + real "
                 "upload/download worlds as oracle",
}
